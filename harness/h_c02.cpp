// C02 correspondence harness: a private TestRegistry with scripted UtestShell /
// IgnoredUtestShell objects, real TestFilter lists (optionally built by the real
// CommandLineArguments parser), run-ignored, reverseTests, shuffleTests(seed) with the random
// numbers observed at the PlatformSpecificRand seam, repeated runs.
//
// ops:  test n|i <group hex> <name hex>      register a shell (id = registration index)
//       gfilter|nfilter <flags> <hex> [j|s|d]   flags: bit0 strict, bit1 invert (-g -sg -xg -xsg / -n -sn -xn -xsn)
//       tfilter <flags> <group hex> <name hex> [j|s|d]   -t -st -xt -xst <group>.<name>
//       vfilter T|I <group hex> <name hex> [j|s|d]       "TEST(group, name)" / "IGNORE_TEST(group, name)"
//           j: through the real parser, value attached to the option; s: through the parser, value in the
//           next argument; d: TestFilter objects constructed directly; none: s after `cmdline`, else d
//       cmdline                              build the filters / run-ignored through the parser
//       runignored | reverse | shuffle <seed> [scripted rand values...] | run
//       undo                                 TestRegistry::unDoLastAddTest
//       find name|group <hex> | count | prev <id|null>     findTestWithName/Group, countTests, getTestWithNext
//       shellri <id> | willrun               shell->setRunIgnored() directly; willRun() of every shell
//       list lg|ln|ll                        listTestGroupNames / listTestGroupAndCaseNames / listTestLocations
//       otest <level> <group hex> <name hex> register an OrderedTestShell through the real OrderedTestInstaller (TEST_ORDERED);
//                                            observed: the registry's list and the _nextOrderedTest chain.  Installers run
//                                            during static initialisation: an otest after reverse/shuffle/undo/runner is skipped
//       runner rep=<N|0> seed=<S|-> rev=<0|1> list=<none|lg|ln|ll> [scripted rand values...]
//                                            the real CommandLineTestRunner (repeat loop, -b, -s, list modes)
#include "common.h"
#include <deque>
#include "CppUTest/TestHarness.h"
#include "CppUTest/TestRegistry.h"
#include "CppUTest/TestOutput.h"
#include "CppUTest/TestResult.h"
#include "CppUTest/TestFilter.h"
#include "CppUTest/TestPlugin.h"
#include "CppUTest/CommandLineArguments.h"
#include "CppUTest/CommandLineTestRunner.h"
#include "CppUTest/PlatformSpecificFunctions.h"
#include "CppUTestExt/OrderedTest.h"

#undef new

namespace {

std::vector<unsigned long> g_exec;        // per-test execution counters (this run)
std::string g_cb;                         // callback order of this run
std::map<const UtestShell*, unsigned long> g_ids;

size_t g_cbCount = 0, g_cbLimit = 0;          // a run away loop (cyclic list) is cut off and reported
std::string g_text;                       // text printed since the last callback
std::vector<std::string> g_repLines;      // per repetition: counters and execution counters (runner op)
bool g_perRep = false;

void flush_text() {
    if (g_text.empty()) return;
    g_cb += " T"; g_cb += vh::hex(g_text); g_text.clear();
}

void runaway() {
    vh::emit("cb%s", g_cb.c_str());
    vh::emit("runaway");
    fflush(stdout);
    _exit(0);
}
void cb(const char* tag) { flush_text(); g_cb += " "; g_cb += tag; if (++g_cbCount > g_cbLimit) runaway(); }
void cb(const char* tag, unsigned long id) {
    flush_text();
    char b[40]; snprintf(b, sizeof b, " %s%lu", tag, id); g_cb += b;
    if (++g_cbCount > g_cbLimit) runaway();
}

unsigned long idOf(const UtestShell& t) {
    std::map<const UtestShell*, unsigned long>::iterator it = g_ids.find(&t);
    return it == g_ids.end() ? 999999999UL : it->second;
}

std::string counts_of(const TestResult& r) {
    char b[160];
    snprintf(b, sizeof b, "counts %lu %lu %lu %lu", (unsigned long) r.getTestCount(), (unsigned long) r.getRunCount(),
             (unsigned long) r.getIgnoredCount(), (unsigned long) r.getFilteredOutCount());
    return b;
}
std::string execs_line() {
    std::string e = "execs";
    for (size_t j = 0; j < g_exec.size(); j++) { char b[32]; snprintf(b, sizeof b, " %lu", g_exec[j]); e += b; }
    return e;
}

struct RecordingOutput : public TestOutput {
    void printTestsStarted() CPPUTEST_OVERRIDE {
        if (g_perRep) g_exec.assign(g_exec.size(), 0);
        cb("S");
    }
    void printTestsEnded(const TestResult& r) CPPUTEST_OVERRIDE {
        cb("E");
        if (g_perRep) {
            char b[32]; snprintf(b, sizeof b, "rep %lu ", (unsigned long) (g_repLines.size() / 2 + 1));
            g_repLines.push_back(std::string(b) + counts_of(r));
            g_repLines.push_back(std::string(b) + execs_line());
            if (r.getFailureCount()) g_repLines.push_back("failures");
        }
    }
    void printCurrentTestStarted(const UtestShell& t) CPPUTEST_OVERRIDE { cb("ts", idOf(t)); }
    void printCurrentTestEnded(const TestResult&) CPPUTEST_OVERRIDE { cb("te"); }
    void printCurrentGroupStarted(const UtestShell& t) CPPUTEST_OVERRIDE { cb("gs", idOf(t)); }
    void printCurrentGroupEnded(const TestResult&) CPPUTEST_OVERRIDE { cb("ge"); }
    void printBuffer(const char* t) CPPUTEST_OVERRIDE { g_text += t; }
    void flush() CPPUTEST_OVERRIDE {}
};

struct ScriptedTest : public Utest {
    unsigned long id;
    explicit ScriptedTest(unsigned long i) : id(i) {}
    void testBody() CPPUTEST_OVERRIDE { if (id < g_exec.size()) g_exec[id]++; cb("x", id); }
};

struct ScriptedShell : public UtestShell {
    unsigned long id;
    ScriptedShell(const char* g, const char* n, unsigned long i) : UtestShell(g, n, "scripted.cpp", i + 1), id(i) {}
    Utest* createTest() CPPUTEST_OVERRIDE { return new ScriptedTest(id); }
};

struct ScriptedIgnoredShell : public IgnoredUtestShell {
    unsigned long id;
    ScriptedIgnoredShell(const char* g, const char* n, unsigned long i) : IgnoredUtestShell(g, n, "scripted.cpp", i + 1), id(i) {}
    Utest* createTest() CPPUTEST_OVERRIDE { return new ScriptedTest(id); }
};

struct ScriptedOrderedShell : public OrderedTestShell {
    unsigned long id;
    explicit ScriptedOrderedShell(unsigned long i) : id(i) {}
    Utest* createTest() CPPUTEST_OVERRIDE { return new ScriptedTest(id); }
};

// ---- random seam
std::deque<long long> g_scripted;
std::vector<unsigned long long> g_rands;
std::vector<unsigned int> g_srands;
int rec_rand() {
    int v;
    if (!g_scripted.empty()) { v = (int) g_scripted.front(); g_scripted.pop_front(); }
    else v = rand();
    g_rands.push_back((unsigned long long) (size_t) v);
    return v;
}
void rec_srand(unsigned int s) { g_srands.push_back(s); srand(s); }

// kind: 0 group filter, 1 name filter, 2 group.name (-t family), 3 TEST(g, n), 4 IGNORE_TEST(g, n)
struct FilterSpec { int kind; unsigned flags; std::string text; std::string text2; char mode; };

// prints the list order; false if following next_ does not reach NULL within n+2 steps (a cyclic
// list: every loop of the real code over it would run for ever, so the caller skips the operation)
bool emit_order(const char* tag, TestRegistry& reg, size_t n) {
    std::string s = tag;
    size_t steps = 0; bool ok = true;
    for (UtestShell* t = reg.getFirstTest(); t; t = t->getNext()) {
        if (++steps > n + 2) { s += " cycle"; ok = false; break; }
        char b[32]; snprintf(b, sizeof b, " %lu", idOf(*t)); s += b;
    }
    vh::emit("%s", s.c_str());
    return ok;
}
bool acyclic(TestRegistry& reg, size_t n) {
    size_t steps = 0;
    for (UtestShell* t = reg.getFirstTest(); t; t = t->getNext()) if (++steps > n + 2) return false;
    return true;
}

void free_filters(TestFilter* f) { while (f) { TestFilter* n = f->getNext(); delete f; f = n; } }

struct RecRunner : public CommandLineTestRunner {
    RecRunner(int ac, const char* const* av, TestRegistry* r) : CommandLineTestRunner(ac, av, r) {}
    TestOutput* createConsoleOutput() CPPUTEST_OVERRIDE { return new RecordingOutput; }
    TestOutput* createJUnitOutput(const SimpleString&) CPPUTEST_OVERRIDE { return new RecordingOutput; }
    TestOutput* createTeamCityOutput() CPPUTEST_OVERRIDE { return new RecordingOutput; }
};

// argv words of one filter as given on the command line
void filter_words(const FilterSpec& f, bool attached, std::vector<std::string>& out) {
    static const char* gflag[4] = { "-g", "-sg", "-xg", "-xsg" };
    static const char* nflag[4] = { "-n", "-sn", "-xn", "-xsn" };
    static const char* tflag[4] = { "-t", "-st", "-xt", "-xst" };
    std::string opt, value;
    if (f.kind == 0) { opt = gflag[f.flags]; value = f.text; }
    else if (f.kind == 1) { opt = nflag[f.flags]; value = f.text; }
    else if (f.kind == 2) { opt = tflag[f.flags]; value = f.text + "." + f.text2; }
    else { opt = f.kind == 3 ? "TEST(" : "IGNORE_TEST("; value = f.text + ", " + f.text2 + ")"; }
    if (attached && !value.empty()) out.push_back(opt + value);
    else { out.push_back(opt); out.push_back(value); }
}

// all filters on one command line (the runner op); `onlyParsed`: leave out the directly constructed ones
void filter_argv(const std::vector<FilterSpec>& filters, bool runIgnored, std::vector<std::string>& argvStore, bool onlyParsed = false) {
    argvStore.push_back("h_c02");
    for (size_t j = 0; j < filters.size(); j++) {
        if (onlyParsed && filters[j].mode == 'd') continue;
        filter_words(filters[j], filters[j].mode == 'j', argvStore);
    }
    if (runIgnored) argvStore.push_back("-ri");
}

void free_filters_until(TestFilter* f, const TestFilter* stop) { while (f && f != stop) { TestFilter* n = f->getNext(); delete f; f = n; } }

// the registry's filter lists for a direct run / list: the parser's lists (for the filters given on a
// command line) with the directly constructed TestFilter objects linked in front of them
struct FilterSet {
    TestFilter* gf; TestFilter* nf; CommandLineArguments* args;
    const TestFilter* pg; const TestFilter* pn;
    std::vector<std::string> argvStore; std::vector<const char*> argv;
    FilterSet() : gf(0), nf(0), args(0), pg(0), pn(0) {}
    static TestFilter* mk(const std::string& text, unsigned flags) {
        TestFilter* f = new TestFilter(text.c_str());
        if (flags & 1u) f->strictMatching();
        if (flags & 2u) f->invertMatching();
        return f;
    }
    void install(TestRegistry& reg, const std::vector<FilterSpec>& filters, bool viaCmdline, bool runIgnoredWanted) {
        bool anyParsed = viaCmdline;
        for (size_t j = 0; j < filters.size(); j++) if (filters[j].mode != 'd') anyParsed = true;
        if (anyParsed) {
            filter_argv(filters, viaCmdline && runIgnoredWanted, argvStore, true);
            for (size_t j = 0; j < argvStore.size(); j++) argv.push_back(argvStore[j].c_str());
            args = new CommandLineArguments((int) argv.size(), &argv[0]);
            if (!args->parse(NullTestPlugin::instance())) vh::emit("parse-failed");
            pg = args->getGroupFilters(); pn = args->getNameFilters();
            if (args->isRunIgnored()) reg.setRunIgnored();
        }
        gf = (TestFilter*) pg; nf = (TestFilter*) pn;
        for (size_t j = 0; j < filters.size(); j++) {
            const FilterSpec& f = filters[j];
            if (f.mode != 'd') continue;
            if (f.kind == 0) gf = mk(f.text, f.flags)->add(gf);
            else if (f.kind == 1) nf = mk(f.text, f.flags)->add(nf);
            else {
                unsigned fl = f.kind == 2 ? f.flags : 1u;
                gf = mk(f.text, fl)->add(gf);
                nf = mk(f.text2, fl)->add(nf);
            }
        }
        reg.setGroupFilters(gf);
        reg.setNameFilters(nf);
    }
    void remove(TestRegistry& reg) {
        reg.setGroupFilters(0); reg.setNameFilters(0);
        free_filters_until(gf, pg); free_filters_until(nf, pn); gf = nf = 0;
        delete args; args = 0;
    }
};

std::string field(const vh::Words& w, const char* key, const char* dflt) {
    std::string k = std::string(key) + "=";
    for (size_t i = 1; i < w.size(); i++) if (w[i].compare(0, k.size(), k) == 0) return w[i].substr(k.size());
    return dflt;
}

void run_case(const vh::Case& c) {
    PlatformSpecificRand = rec_rand;
    PlatformSpecificSrand = rec_srand;
    TestRegistry reg;
    reg.setCurrentRegistry(&reg);                    // OrderedTestShell::addOrderedTestToHead asks for the current registry
    OrderedTestShell::setOrderedTestHead(0);
    bool reordered = false;                           // a reverse/shuffle/undo/runner happened: static initialisation is over
    std::deque<std::string> strings;                 // keeps group/name storage alive (shells hold char*)
    std::vector<UtestShell*> shells;
    std::vector<FilterSpec> filters;
    bool viaCmdline = false, runIgnoredWanted = false;
    RecordingOutput out;

    for (size_t k = 0; k < c.ops.size(); k++) {
        const vh::Words& w = c.ops[k];
        if (w[0] == "test" && w.size() >= 4 && (w[1] == "n" || w[1] == "i")) {
            vh::emit("> test %s %s %s", w[1].c_str(), w[2].c_str(), w[3].c_str());
            strings.push_back(vh::unhex(w[2])); const char* g = strings.back().c_str();
            strings.push_back(vh::unhex(w[3])); const char* n = strings.back().c_str();
            unsigned long id = (unsigned long) shells.size();
            UtestShell* s = w[1] == "i" ? (UtestShell*) new ScriptedIgnoredShell(g, n, id) : (UtestShell*) new ScriptedShell(g, n, id);
            shells.push_back(s); g_ids[s] = id;
            reg.addTest(s);
        }
        else if (w[0] == "otest" && w.size() >= 4 && !reordered) {
            long long lv = vh::to_i64(w[1]);
            if (lv > 2147483647LL) lv = 2147483647LL;
            if (lv < -2147483647LL - 1) lv = -2147483647LL - 1;
            vh::emit("> otest %lld %s %s", lv, w[2].c_str(), w[3].c_str());
            strings.push_back(vh::unhex(w[2])); const char* g = strings.back().c_str();
            strings.push_back(vh::unhex(w[3])); const char* n = strings.back().c_str();
            unsigned long id = (unsigned long) shells.size();
            ScriptedOrderedShell* s = new ScriptedOrderedShell(id);
            shells.push_back(s); g_ids[s] = id;
            { OrderedTestInstaller installer(*s, g, n, "scripted.cpp", id + 1, (int) lv); }
            emit_order("order", reg, shells.size());
            std::string oc = "ochain";
            size_t steps = 0;
            for (OrderedTestShell* t = OrderedTestShell::getOrderedTestHead(); t; t = t->getNextOrderedTest()) {
                if (++steps > shells.size() + 2) { oc += " cycle"; break; }
                char b[32]; snprintf(b, sizeof b, " %lu", idOf(*t)); oc += b;
            }
            vh::emit("%s", oc.c_str());
        }
        else if ((w[0] == "gfilter" || w[0] == "nfilter") && w.size() >= 3) {
            FilterSpec f; f.kind = w[0] == "gfilter" ? 0 : 1; f.flags = (unsigned) vh::to_u64(w[1]) & 3u; f.text = vh::unhex(w[2]);
            std::string m = w.size() >= 4 ? w[3] : "";
            f.mode = (m == "j" || m == "s" || m == "d") ? m[0] : (viaCmdline ? 's' : 'd');
            filters.push_back(f);
            std::string sfx = (m == "j" || m == "s" || m == "d") ? " " + m : std::string();
            vh::emit("> %s %u %s%s", w[0].c_str(), f.flags, vh::hex(f.text).c_str(), sfx.c_str());
        }
        else if ((w[0] == "tfilter" || w[0] == "vfilter") && w.size() >= 4) {
            FilterSpec f; f.text = vh::unhex(w[2]); f.text2 = vh::unhex(w[3]);
            bool ok;
            if (w[0] == "tfilter") {
                f.kind = 2; f.flags = (unsigned) vh::to_u64(w[1]) & 3u;
                // documented form <group>.<name>: no '.' inside either part, a name is given
                ok = f.text.find('.') == std::string::npos && f.text2.find('.') == std::string::npos && !f.text2.empty();
            }
            else {
                f.kind = w[1] == "I" ? 4 : 3; f.flags = 1u;
                // the form the verbose output prints: TEST(group, name)
                ok = f.text.find_first_of(",)") == std::string::npos && f.text2.find_first_of(",)") == std::string::npos && !f.text.empty();
            }
            std::string m = w.size() >= 5 ? w[4] : "";
            f.mode = (m == "j" || m == "s" || m == "d") ? m[0] : (viaCmdline ? 's' : 'd');
            if (!ok) { vh::emit("> skip"); continue; }
            filters.push_back(f);
            std::string sfx = (m == "j" || m == "s" || m == "d") ? " " + m : std::string();
            if (f.kind == 2) vh::emit("> tfilter %u %s %s%s", f.flags, vh::hex(f.text).c_str(), vh::hex(f.text2).c_str(), sfx.c_str());
            else vh::emit("> vfilter %s %s %s%s", f.kind == 4 ? "I" : "T", vh::hex(f.text).c_str(), vh::hex(f.text2).c_str(), sfx.c_str());
        }
        else if (w[0] == "cmdline") { vh::emit_op("cmdline"); viaCmdline = true; }
        else if (w[0] == "runignored") { vh::emit_op("runignored"); runIgnoredWanted = true; if (!viaCmdline) reg.setRunIgnored(); }
        else if (w[0] == "reverse") {
            vh::emit_op("reverse"); reordered = true;
            if (!emit_order("from", reg, shells.size())) continue;
            reg.reverseTests();
            emit_order("order", reg, shells.size());
        }
        else if (w[0] == "shuffle" && w.size() >= 2) {
            std::string op = "> shuffle " + w[1];
            g_scripted.clear();
            for (size_t j = 2; j < w.size(); j++) { g_scripted.push_back(vh::to_i64(w[j])); op += " " + w[j]; }
            vh::emit("%s", op.c_str()); reordered = true;
            if (!emit_order("from", reg, shells.size())) { g_scripted.clear(); continue; }
            g_rands.clear(); g_srands.clear();
            reg.shuffleTests((size_t) vh::to_u64(w[1]));
            for (size_t j = 0; j < g_srands.size(); j++) vh::emit("srand %u", g_srands[j]);
            std::string r = "rands";
            for (size_t j = 0; j < g_rands.size(); j++) { char b[32]; snprintf(b, sizeof b, " %llu", g_rands[j]); r += b; }
            vh::emit("%s", r.c_str());
            emit_order("order", reg, shells.size());
            g_scripted.clear();
        }
        else if (w[0] == "run") {
            vh::emit_op("run");
            if (!acyclic(reg, shells.size())) { vh::emit("list-cycle"); continue; }
            FilterSet fs; fs.install(reg, filters, viaCmdline, runIgnoredWanted);
            g_exec.assign(shells.size(), 0);
            g_cb.clear(); g_text.clear();
            g_cbCount = 0; g_cbLimit = 8 * shells.size() + 16;
            {
                TestResult result(out);
                reg.runAllTests(result);
                flush_text();
                vh::emit("cb%s", g_cb.c_str());
                vh::emit("%s", counts_of(result).c_str());
                if (result.getFailureCount()) vh::emit("failures %lu", (unsigned long) result.getFailureCount());
            }
            vh::emit("%s", execs_line().c_str());
            fs.remove(reg);
        }
        else if (w[0] == "undo") {
            vh::emit_op("undo"); reordered = true;
            if (!emit_order("from", reg, shells.size())) continue;
            reg.unDoLastAddTest();
            emit_order("order", reg, shells.size());
        }
        else if (w[0] == "find" && w.size() >= 3 && (w[1] == "name" || w[1] == "group")) {
            std::string text = vh::unhex(w[2]);
            vh::emit("> find %s %s", w[1].c_str(), vh::hex(text).c_str());
            if (!emit_order("order", reg, shells.size())) continue;
            UtestShell* t = w[1] == "name" ? reg.findTestWithName(text.c_str()) : reg.findTestWithGroup(text.c_str());
            if (t) vh::emit("found %lu", idOf(*t)); else vh::emit("found none");
        }
        else if (w[0] == "count") {
            vh::emit_op("count");
            if (!emit_order("order", reg, shells.size())) continue;
            vh::emit("count %lu", (unsigned long) reg.countTests());
        }
        else if (w[0] == "prev" && w.size() >= 2 && (w[1] == "null" || vh::to_u64(w[1]) < shells.size())) {
            vh::emit("> prev %s", w[1].c_str());
            if (!emit_order("order", reg, shells.size())) continue;
            UtestShell* arg = w[1] == "null" ? 0 : shells[(size_t) vh::to_u64(w[1])];
            UtestShell* t = reg.getTestWithNext(arg);
            if (t) vh::emit("found %lu", idOf(*t)); else vh::emit("found none");
        }
        else if (w[0] == "shellri" && w.size() >= 2 && vh::to_u64(w[1]) < shells.size()) {
            vh::emit("> shellri %s", w[1].c_str());
            shells[(size_t) vh::to_u64(w[1])]->setRunIgnored();
        }
        else if (w[0] == "willrun") {
            vh::emit_op("willrun");
            std::string l = "willrun";
            for (size_t j = 0; j < shells.size(); j++) l += shells[j]->willRun() ? " 1" : " 0";
            vh::emit("%s", l.c_str());
        }
        else if (w[0] == "list" && w.size() >= 2 && (w[1] == "lg" || w[1] == "ln" || w[1] == "ll")) {
            vh::emit("> list %s", w[1].c_str());
            if (!emit_order("order", reg, shells.size())) continue;
            FilterSet fs; fs.install(reg, filters, viaCmdline, runIgnoredWanted);
            g_exec.assign(shells.size(), 0);
            g_cb.clear(); g_text.clear();
            g_cbCount = 0; g_cbLimit = 8 * shells.size() + 16;
            {
                TestResult result(out);
                if (w[1] == "lg") reg.listTestGroupNames(result);
                else if (w[1] == "ln") reg.listTestGroupAndCaseNames(result);
                else reg.listTestLocations(result);
                std::string text = g_text; g_text.clear();
                if (!g_cb.empty()) vh::emit("cb%s", g_cb.c_str());
                vh::emit("text %s", vh::hex(text).c_str());
                vh::emit("%s", counts_of(result).c_str());
            }
            vh::emit("%s", execs_line().c_str());
            fs.remove(reg);
        }
        else if (w[0] == "runner") {
            std::string rep = field(w, "rep", "0"), seed = field(w, "seed", "-"), rev = field(w, "rev", "0"), lst = field(w, "list", "none");
            if (lst != "lg" && lst != "ln" && lst != "ll") lst = "none";
            unsigned long nrep = (unsigned long) vh::to_u64(rep); if (nrep > 5) nrep = 5;
            unsigned long nseed = seed == "-" ? 0 : (unsigned long) (vh::to_u64(seed) & 0xffffffffUL);
            bool shuffling = seed != "-" && nseed != 0;
            std::string op = "> runner rep=" + std::to_string(nrep) + " seed=" + (shuffling ? std::to_string(nseed) : std::string("-")) +
                             " rev=" + (rev == "1" ? "1" : "0") + " list=" + lst;
            g_scripted.clear();
            for (size_t j = 1; j < w.size(); j++) if (w[j].find('=') == std::string::npos) { g_scripted.push_back(vh::to_i64(w[j])); op += " " + w[j]; }
            vh::emit("%s", op.c_str()); reordered = true;
            if (!emit_order("from", reg, shells.size())) { g_scripted.clear(); continue; }
            std::vector<std::string> argvStore; std::vector<const char*> argv;
            filter_argv(filters, runIgnoredWanted, argvStore);
            if (nrep) argvStore.push_back("-r" + std::to_string(nrep));
            if (shuffling) argvStore.push_back("-s" + std::to_string(nseed));
            if (rev == "1") argvStore.push_back("-b");
            if (lst != "none") argvStore.push_back("-" + lst);
            for (size_t j = 0; j < argvStore.size(); j++) argv.push_back(argvStore[j].c_str());
            g_exec.assign(shells.size(), 0);
            g_cb.clear(); g_text.clear(); g_repLines.clear();
            g_rands.clear(); g_srands.clear();
            g_cbCount = 0; g_cbLimit = (8 * shells.size() + 16) * (nrep ? nrep : 1) + 16;
            g_perRep = true;
            int ret;
            {
                RecRunner runner((int) argv.size(), &argv[0], &reg);
                ret = runner.runAllTestsMain();
            }
            g_perRep = false;
            flush_text();
            reg.setGroupFilters(0); reg.setNameFilters(0);
            vh::emit("ret %d", ret);
            std::string sr = "srands";
            for (size_t j = 0; j < g_srands.size(); j++) { char b[32]; snprintf(b, sizeof b, " %u", g_srands[j]); sr += b; }
            vh::emit("%s", sr.c_str());
            std::string r = "rands";
            for (size_t j = 0; j < g_rands.size(); j++) { char b[32]; snprintf(b, sizeof b, " %llu", g_rands[j]); r += b; }
            vh::emit("%s", r.c_str());
            vh::emit("stream%s", g_cb.c_str());
            for (size_t j = 0; j < g_repLines.size(); j++) vh::emit("%s", g_repLines[j].c_str());
            emit_order("order", reg, shells.size());
            g_scripted.clear();
        }
        else vh::emit("> skip");
    }
    reg.setCurrentRegistry(0);
    OrderedTestShell::setOrderedTestHead(0);
    for (size_t j = 0; j < shells.size(); j++) delete shells[j];
}

} // namespace

int main() { return vh::run_all(run_case, 5); }
