// C05 correspondence harness: tracked allocation paths of the real code.
//
//  * private path: a private MemoryLeakDetector with a recording MemoryLeakFailure (records, returns) and three
//    recording TestMemoryAllocators (new / new[] / malloc families).  alloc_memory / allocMemoryLeakNode never
//    really allocate more than LIMIT bytes (larger requests are recorded and answered NULL); every smaller request
//    is answered with an exact-size malloc block, so a guard byte or node written outside the request is an ASan
//    report.  Fault schedule: the k-th next call of a kind (alloc, node, realloc, pmalloc) answers NULL.
//  * global path: cpputest_malloc/calloc/realloc/free/strdup/strndup and operator new (all six mem_leak variants)
//    / delete with the PlatformSpecificMalloc/Realloc/Free function pointers wrapped (recorded and failed only
//    inside the bracket around the call under test).
//
// Underlying blocks are numbered 1,2,3,... in the order the platform hands them out (0 = NULL).
#include <sys/mman.h>
#include "fixture.h"
#include <new>
#include "CppUTest/MemoryLeakDetector.h"
#include "CppUTest/MemoryLeakWarningPlugin.h"
#include "CppUTest/TestMemoryAllocator.h"
#include "CppUTest/PlatformSpecificFunctions.h"
#include "CppUTest/TestHarness_c.h"

#undef new
#undef malloc
#undef free
#undef calloc
#undef realloc
#undef strdup
#undef strndup

namespace {

const size_t LIMIT = 1u << 20;      // never really allocate more than 1 MiB (+ bookkeeping slack below)
const size_t SLACK = 4096;
// A few selected HUGE requests (2^32 .. 2^32 + 64 KiB, only while a `balloc` / `brealloc` operation runs) are answered
// with a lazily backed anonymous mapping: only the pages the detector or the harness touches are ever backed.
const size_t HUGE_LO = (size_t) 1 << 32;
const size_t HUGE_HI = HUGE_LO + (1u << 16);
bool g_huge_ok = false;
inline bool huge_req(size_t n) { return g_huge_ok && n >= HUGE_LO && n <= HUGE_HI; }
char* huge_map(size_t n) {
    void* p = mmap(0, n, PROT_READ | PROT_WRITE, MAP_PRIVATE | MAP_ANONYMOUS | MAP_NORESERVE, -1, 0);
    return p == MAP_FAILED ? 0 : (char*) p;
}

// ---------------------------------------------------------------- block table (no heap use: it is consulted inside the seams)
struct Blk { char* p; size_t size; unsigned long id; bool mapped; };
Blk g_blk[16384];
int g_nblk = 0;
unsigned long g_nextid = 1;

unsigned long reg(char* p, size_t size, unsigned long id = 0) {
    if (g_nblk >= 16384) { vh::emit("harness-error block table full"); fflush(stdout); _exit(3); }
    if (!id) id = g_nextid++;
    g_blk[g_nblk].p = p; g_blk[g_nblk].size = size; g_blk[g_nblk].id = id; g_blk[g_nblk].mapped = false; g_nblk++;
    return id;
}
int find_exact(const void* p) { for (int i = 0; i < g_nblk; i++) if (g_blk[i].p == (const char*) p) return i; return -1; }
int find_containing(const void* p) {
    for (int i = 0; i < g_nblk; i++)
        if ((const char*) p >= g_blk[i].p && (const char*) p < g_blk[i].p + (g_blk[i].size ? g_blk[i].size : 1)) return i;
    return -1;
}
void unreg(int i) { g_blk[i] = g_blk[g_nblk - 1]; g_nblk--; }

// ---------------------------------------------------------------- fault schedule and seams
long g_fail_alloc = 0, g_fail_node = 0, g_fail_realloc = 0, g_fail_pmalloc = 0;
bool g_bracket = false;          // inside the call under test
bool g_bracket_failed = false;   // a platform malloc already answered NULL in this bracket: what follows is failure reporting
bool g_quiet = false;
bool g_realloc_moved = false;    // the platform realloc of this bracket succeeded (the old block no longer exists)

bool countdown(long& c) { if (c > 0) { c--; if (c == 0) return true; } return false; }

void* (*real_malloc)(size_t) = 0;
void* (*real_realloc)(void*, size_t) = 0;
void (*real_free)(void*) = 0;

void* seam_malloc(size_t n) {
    if (!g_bracket || g_bracket_failed) return real_malloc(n);
    bool fail = countdown(g_fail_pmalloc) || n > LIMIT + SLACK;
    char* p = fail ? 0 : (char*) real_malloc(n);
    unsigned long id = p ? reg(p, n) : 0;
    if (!p) g_bracket_failed = true;
    if (!g_quiet) vh::emit("pm %lu %lu", (unsigned long) n, id);
    return p;
}

void* seam_realloc(void* m, size_t n) {
    if (!g_bracket) return real_realloc(m, n);
    int oi = m ? find_exact(m) : -1;
    unsigned long oldid = oi >= 0 ? g_blk[oi].id : 0;
    bool huge = huge_req(n);
    bool old_mapped = oi >= 0 && g_blk[oi].mapped;
    size_t oldn = oi >= 0 ? g_blk[oi].size : 0;
    bool fail = countdown(g_fail_realloc) || (n > LIMIT + SLACK && !huge);
    char* p = 0;
    if (!fail && (huge || old_mapped)) {                    // a mapping is involved: realloc by hand, same contract
        if (huge && old_mapped) { void* q = mremap(m, oldn, n, MREMAP_MAYMOVE); p = q == MAP_FAILED ? 0 : (char*) q; }
        else if (huge) { p = huge_map(n); if (p && m) { memcpy(p, m, oldn); real_free(m); } }
        else { p = (char*) real_malloc(n ? n : 1); if (p) { memcpy(p, m, oldn < n ? oldn : n); munmap(m, oldn); } }
    }
    else if (!fail) p = (char*) real_realloc(m, n);
    unsigned long id = 0;
    if (p) {
        g_realloc_moved = true;
        oi = m ? find_exact(m) : -1;
        if (oi >= 0) unreg(oi);
        id = reg(p, n, (p == (char*) m) ? oldid : 0);
        if (huge) g_blk[g_nblk - 1].mapped = true;
    }
    if (!g_quiet) vh::emit("urealloc %lu %lu %lu", oldid, (unsigned long) n, id);
    if (!p && !fail && m && n == 0) {
        // realloc(p, 0) of glibc / ASan: the block is RELEASED and NULL returned (legal platform behaviour)
        oi = find_exact(m);
        if (oi >= 0) unreg(oi);
        g_realloc_moved = true;
        if (!g_quiet) vh::emit("platform-freed %lu", oldid);
    }
    return p;
}

void seam_free(void* m) {
    if (g_bracket && m) {
        int i = find_exact(m);
        if (i >= 0) { if (!g_quiet) vh::emit("pf %lu", g_blk[i].id); unreg(i); }
    }
    real_free(m);
}

// ---------------------------------------------------------------- recording reporter / allocators (private path)
struct Reporter : public MemoryLeakFailure {
    unsigned long count;
    Reporter() : count(0) {}
    void fail(char* s) CPPUTEST_OVERRIDE {
        count++;
        const char* kind = "other";
        if (strstr(s, "Deallocating non-allocated memory")) kind = "nonallocated";
        else if (strstr(s, "Allocation/deallocation type mismatch")) kind = "mismatch";
        else if (strstr(s, "Memory corruption")) kind = "corruption";
        if (!g_quiet) vh::emit("misuse %s", kind);
    }
};

struct RecAllocator : public TestMemoryAllocator {
    RecAllocator(const char* name, const char* a, const char* f) : TestMemoryAllocator(name, a, f) {}
    char* alloc_memory(size_t size, const char*, size_t) CPPUTEST_OVERRIDE {
        bool huge = huge_req(size);
        bool fail = countdown(g_fail_alloc) || (size > LIMIT + SLACK && !huge);
        char* p = fail ? 0 : huge ? huge_map(size) : (char*) malloc(size);
        unsigned long id = p ? reg(p, size) : 0;
        if (p && huge) g_blk[g_nblk - 1].mapped = true;
        if (!g_quiet) vh::emit("ualloc %lu %lu", (unsigned long) size, id);
        return p;
    }
    char* allocMemoryLeakNode(size_t size) CPPUTEST_OVERRIDE {
        bool fail = countdown(g_fail_node);
        char* p = fail ? 0 : (char*) malloc(size);
        unsigned long id = p ? reg(p, size) : 0;
        if (!g_quiet) vh::emit("unode %lu %lu", (unsigned long) size, id);
        return p;
    }
    void free_memory(char* memory, size_t, const char*, size_t) CPPUTEST_OVERRIDE {
        int i = find_exact(memory);
        if (!g_quiet) vh::emit("ufree %lu", i >= 0 ? g_blk[i].id : 0);
        if (i >= 0) { bool mapped = g_blk[i].mapped; size_t n = g_blk[i].size; unreg(i); if (mapped) munmap(memory, n); else free(memory); }
    }
    void freeMemoryLeakNode(char* memory) CPPUTEST_OVERRIDE {
        int i = find_exact(memory);
        if (!g_quiet) vh::emit("unodefree %lu", i >= 0 ? g_blk[i].id : 0);
        if (i >= 0) { unreg(i); free(memory); }
    }
};

// ---------------------------------------------------------------- helpers
inline unsigned char pat(unsigned long seed, size_t i) { return (unsigned char) ((seed * 37 + i * 11 + (i >> 8) * 3 + 1) & 0xff); }

void emit_content(const char* p, size_t n) {       // no heap use: it also runs while the new allocator is the NullUnknownAllocator
    if (n == 0) { vh::emit("content 0 -"); return; }
    if (n <= 256) {
        static const char* d = "0123456789abcdef";
        char buf[520];
        for (size_t i = 0; i < n; i++) { unsigned char b = (unsigned char) p[i]; buf[2 * i] = d[b >> 4]; buf[2 * i + 1] = d[b & 15]; }
        buf[2 * n] = 0;
        vh::emit("content %lu %s", (unsigned long) n, buf);
        return;
    }
    unsigned long long h = 14695981039346656037ULL;
    for (size_t i = 0; i < n; i++) { h ^= (unsigned char) p[i]; h *= 1099511628211ULL; }
    vh::emit("content %lu #%016llx", (unsigned long) n, h);
}

void emit_ret(const void* p) {
    if (!p) { vh::emit("ret null"); return; }
    int i = find_containing(p);
    if (i < 0) { vh::emit("ret unknown-block"); return; }
    vh::emit("ret %lu %lu", g_blk[i].id, (unsigned long) ((const char*) p - g_blk[i].p));
    vh::emit("align %lu", (unsigned long) ((size_t) p % 16));
}

void write_pattern(char* p, size_t from, size_t to, unsigned long seed) {
    for (size_t i = from; i < to; i++) p[i] = (char) pat(seed, i);       // ASan checks every byte
    vh::emit("wrote %lu", (unsigned long) (to > from ? to - from : 0));
}

struct Lab { char* p; size_t size; int fam; bool global; bool live; unsigned long id; bool sep; bool big; };

Lab mklab(char* p, size_t size, int fam, bool global, unsigned long id, bool sep, bool big = false) { Lab l = { p, size, fam, global, true, id, sep, big }; return l; }

// ---- blocks handled through their EDGES only (`balloc` / `brealloc` / `bfree`: sizes up to 2^32 + 64 KiB)
const size_t EDGE = 32;

void emit_hexline(const char* name, const char* p, size_t from, size_t to) {
    static const char* d = "0123456789abcdef";
    char buf[2 * EDGE + 2];
    size_t n = to > from ? to - from : 0;
    if (n > EDGE) n = EDGE;
    for (size_t i = 0; i < n; i++) { unsigned char b = (unsigned char) p[from + i]; buf[2 * i] = d[b >> 4]; buf[2 * i + 1] = d[b & 15]; }
    buf[2 * n] = 0;
    vh::emit("%s %lu %s", name, (unsigned long) n, n ? buf : "-");
}

// the bytes right behind the caller's `size` bytes, as far as the platform block reaches (where the guard bytes belong)
void emit_behind(const char* p, size_t size) {
    int bi = find_containing(p);
    size_t g = MemoryLeakDetector::memory_corruption_buffer_size;
    size_t avail = bi >= 0 ? g_blk[bi].size - (size_t) (p - g_blk[bi].p) : 0;
    if (size + g > avail) { vh::emit("behind outside-the-block"); return; }
    emit_hexline("behind", p, size, size + g);
}

// the harness writes its pattern into the first and the last EDGE user bytes
void write_edges(char* p, size_t size, unsigned long seed) {
    size_t h = size < EDGE ? size : EDGE;
    for (size_t i = 0; i < h; i++) p[i] = (char) pat(seed, i);
    for (size_t i = size > EDGE ? size - EDGE : 0; i < size; i++) p[i] = (char) pat(seed, i);
    vh::emit("wrote-edges");
}

unsigned long id_of(const void* p) { int i = find_containing(p); return i >= 0 ? g_blk[i].id : 0; }   // fam 0 new, 1 new[], 2 malloc

int fam_of(const std::string& s) { return s == "new" ? 0 : s == "newarr" ? 1 : s == "malloc" ? 2 : -1; }

enum Res { R_PTR, R_NULL, R_BADALLOC, R_TESTFAIL };

template <class F> Res guarded(F f, void*& out, long& delta) {
    MemoryLeakDetector* gd = MemoryLeakWarningPlugin::getGlobalDetector();
    size_t before = gd->totalMemoryLeaks(mem_leak_period_all);
    Res r;
    out = 0;
    g_bracket_failed = false;
    g_bracket = true;
    try { out = f(); r = out ? R_PTR : R_NULL; }
    catch (const std::bad_alloc&) { r = R_BADALLOC; }
    catch (const CppUTestFailedException&) { r = R_TESTFAIL; }
    g_bracket = false;
    delta = (long) gd->totalMemoryLeaks(mem_leak_period_all) - (long) before;
    return r;
}

void emit_res(Res r, const void* p) {
    if (r == R_PTR) emit_ret(p);
    else vh::emit(r == R_NULL ? "ret null" : r == R_BADALLOC ? "ret badalloc" : "ret testfail");
}

const vh::Case* g_case = 0;

void body() {
    const vh::Case& c = *g_case;
    Reporter reporter;
    MemoryLeakDetector det(&reporter);
    det.enable();
    RecAllocator a_new("rec new", "new", "delete"), a_arr("rec new []", "new []", "delete []"), a_mal("rec malloc", "malloc", "free");
    RecAllocator* allocs[3] = { &a_new, &a_arr, &a_mal };
    std::map<std::string, Lab> labs;
    bool oom = false, nullnew = false, crashalloc = false, tsafe = false;
    static CrashOnAllocationAllocator crash_new, crash_arr, crash_mal;
    MemoryLeakDetector* gd = MemoryLeakWarningPlugin::getGlobalDetector();

    for (size_t i = 0; i < c.ops.size(); i++) {
        const vh::Words& w = c.ops[i];
        const std::string& op = w[0];
        // while operator new is served by the NullUnknownAllocator the harness itself must not touch the heap
        if (nullnew && !(op == "gnew" || op == "gpeek" || op == "gnullnew" || op == "finish")) { vh::emit("> skip"); continue; }
        if (op == "config" && w.size() == 1) {
            vh::emit_op("config");
#ifdef CPPUTEST_DISABLE_MEM_CORRUPTION_CHECK
            int check = 0;
#else
            int check = 1;
#endif
            vh::emit("cfg %lu %lu %d", (unsigned long) MemoryLeakDetector::memory_corruption_buffer_size,
                     (unsigned long) sizeof(MemoryLeakDetectorNode), check);
        }
        else if (op == "fail" && w.size() == 3) {            // fail <alloc|node|realloc|pmalloc> <k>
            long k = (long) vh::to_u64(w[2]);
            if (w[1] == "alloc") g_fail_alloc = k; else if (w[1] == "node") g_fail_node = k;
            else if (w[1] == "realloc") g_fail_realloc = k; else if (w[1] == "pmalloc") g_fail_pmalloc = k;
            else { vh::emit("> skip"); continue; }
            vh::emit("> fail %s %ld", w[1].c_str(), k);
        }
        // ------------------------------------------------------------ private detector
        else if (op == "alloc" && (w.size() == 5 || w.size() == 6) && fam_of(w[1]) >= 0) {       // alloc <fam> <size> <label> <seed> [<allocatNodesSeperately 0|1>]
            int fam = fam_of(w[1]); size_t size = (size_t) vh::to_u64(w[2]); unsigned long seed = vh::to_u64(w[4]);
            bool sep = w.size() == 6 ? (w[5] == "1") : (fam == 2);
            if (sep == (fam == 2)) vh::emit("> alloc %s %lu %lu", w[1].c_str(), (unsigned long) size, seed);
            else vh::emit("> allocx %s %lu %lu %d", w[1].c_str(), (unsigned long) size, seed, sep ? 1 : 0);   // the layout the public wrappers never choose
            char* p = det.allocMemory(allocs[fam], size, "h_c05", 1, sep);
            emit_ret(p);
            if (p) { write_pattern(p, 0, size, seed); labs[w[3]] = mklab(p, size, fam, false, id_of(p), sep); }
            vh::emit("total %lu", (unsigned long) det.totalMemoryLeaks(mem_leak_period_all));
        }
        else if (op == "realloc" && (w.size() == 6 || w.size() == 7) && fam_of(w[1]) >= 0) {     // realloc <fam> <label|null> <size> <newlabel> <seed> [<sep, for null>]
            int fam = fam_of(w[1]); size_t size = (size_t) vh::to_u64(w[3]); unsigned long seed = vh::to_u64(w[5]);
            char* old = 0; size_t oldsize = 0;
            bool sep = w.size() == 7 ? (w[6] == "1") : (fam == 2);
            if (w[2] != "null") {
                if (!labs.count(w[2]) || labs[w[2]].global || labs[w[2]].big) { vh::emit("> skip"); continue; }
                old = labs[w[2]].p; oldsize = labs[w[2]].size; sep = labs[w[2]].sep;      // the layout the block was allocated with
            }
            if (sep == (fam == 2)) vh::emit("> realloc %s %lu %lu %lu", w[1].c_str(), old ? labs[w[2]].id : 0UL, (unsigned long) size, seed);
            else vh::emit("> reallocx %s %lu %lu %lu %d", w[1].c_str(), old ? labs[w[2]].id : 0UL, (unsigned long) size, seed, sep ? 1 : 0);
            g_realloc_moved = false;
            g_bracket = true;                         // the platform realloc seam records
            char* p = det.reallocMemory(allocs[fam], old, size, "h_c05", 2, sep);
            g_bracket = false;
            emit_ret(p);
            if (!p && old && g_realloc_moved) labs[w[2]].live = false;
            if (p) {
                size_t keep = oldsize < size ? oldsize : size;
                emit_content(p, keep);
                write_pattern(p, keep, size, seed);
                if (old) labs[w[2]].live = false;
                labs[w[4]] = mklab(p, size, fam, false, id_of(p), sep);
            }
            vh::emit("total %lu", (unsigned long) det.totalMemoryLeaks(mem_leak_period_all));
        }
        else if (op == "free" && w.size() == 3 && fam_of(w[1]) >= 0) {        // free <fam> <label>
            int fam = fam_of(w[1]);
            if (!labs.count(w[2]) || labs[w[2]].global || labs[w[2]].big) { vh::emit("> skip"); continue; }
            Lab& l = labs[w[2]];
            if (l.sep == (fam == 2)) vh::emit("> free %s %lu", w[1].c_str(), l.id);
            else vh::emit("> freex %s %lu %d", w[1].c_str(), l.id, l.sep ? 1 : 0);
            det.invalidateMemory(l.p);                // as mem_leak_free / operator delete do
            det.deallocMemory(allocs[fam], l.p, "h_c05", 3, l.sep);
            l.live = false;
            vh::emit("total %lu", (unsigned long) det.totalMemoryLeaks(mem_leak_period_all));
        }
        else if ((op == "peek" || op == "gpeek") && w.size() == 2) {
            if (!labs.count(w[1]) || !labs[w[1]].live || labs[w[1]].big) { vh::emit("> skip"); continue; }
            vh::emit("> %s %lu %lu", op.c_str(), labs[w[1]].id, (unsigned long) labs[w[1]].size);
            emit_content(labs[w[1]].p, labs[w[1]].size);
        }
        // ------------------------------------------------------------ private detector, blocks observed through their edges (huge sizes)
        else if (op == "balloc" && w.size() == 6 && fam_of(w[1]) >= 0) {          // balloc <fam> <size> <label> <seed> <sep 0|1>
            int fam = fam_of(w[1]); size_t size = (size_t) vh::to_u64(w[2]); unsigned long seed = vh::to_u64(w[4]);
            bool sep = w[5] == "1";
            vh::emit("> balloc %s %lu %lu %d", w[1].c_str(), (unsigned long) size, seed, sep ? 1 : 0);
            g_huge_ok = true;
            char* p = det.allocMemory(allocs[fam], size, "h_c05", 1, sep);
            g_huge_ok = false;
            emit_ret(p);
            if (p) { emit_behind(p, size); write_edges(p, size, seed); labs[w[3]] = mklab(p, size, fam, false, id_of(p), sep, true); }
            vh::emit("total %lu", (unsigned long) det.totalMemoryLeaks(mem_leak_period_all));
        }
        else if (op == "brealloc" && w.size() == 7 && fam_of(w[1]) >= 0) {        // brealloc <fam> <label|null> <size> <newlabel> <seed> <sep, for null>
            int fam = fam_of(w[1]); size_t size = (size_t) vh::to_u64(w[3]); unsigned long seed = vh::to_u64(w[5]);
            char* old = 0; size_t oldsize = 0;
            bool sep = w[6] == "1";
            if (w[2] != "null") {
                if (!labs.count(w[2]) || labs[w[2]].global || !labs[w[2]].big || !labs[w[2]].live || labs[w[2]].fam != fam) { vh::emit("> skip"); continue; }
                old = labs[w[2]].p; oldsize = labs[w[2]].size; sep = labs[w[2]].sep;
            }
            vh::emit("> brealloc %s %lu %lu %lu %d", w[1].c_str(), old ? labs[w[2]].id : 0UL, (unsigned long) size, seed, sep ? 1 : 0);
            g_realloc_moved = false;
            g_huge_ok = true; g_bracket = true;
            char* p = det.reallocMemory(allocs[fam], old, size, "h_c05", 2, sep);
            g_bracket = false; g_huge_ok = false;
            emit_ret(p);
            if (!p && old && g_realloc_moved) labs[w[2]].live = false;
            if (p) {
                size_t keep = oldsize < size ? oldsize : size;
                emit_hexline("head", p, 0, keep);                                              // the first bytes of the preserved prefix
                if (old && size >= oldsize) emit_hexline("tail", p, oldsize > EDGE ? oldsize - EDGE : 0, oldsize);   // and, when it grew, the last ones
                emit_behind(p, size);
                write_edges(p, size, seed);
                if (old) labs[w[2]].live = false;
                labs[w[4]] = mklab(p, size, fam, false, id_of(p), sep, true);
            }
            vh::emit("total %lu", (unsigned long) det.totalMemoryLeaks(mem_leak_period_all));
        }
        else if (op == "bfree" && w.size() == 2) {                                 // bfree <label>: deallocMemory (no poisoning pass over the bytes)
            if (!labs.count(w[1]) || labs[w[1]].global || !labs[w[1]].big || !labs[w[1]].live) { vh::emit("> skip"); continue; }
            Lab& l = labs[w[1]];
            vh::emit("> bfree %s %lu %d", l.fam == 0 ? "new" : l.fam == 1 ? "newarr" : "malloc", l.id, l.sep ? 1 : 0);
            det.deallocMemory(allocs[l.fam], l.p, "h_c05", 3, l.sep);
            l.live = false;
            vh::emit("total %lu", (unsigned long) det.totalMemoryLeaks(mem_leak_period_all));
        }
        // ------------------------------------------------------------ global API
        else if (op == "goom" && w.size() == 2) {
            if (crashalloc) { vh::emit("> skip"); continue; }
            vh::emit("> goom %s", w[1] == "on" ? "on" : "off");
            if (w[1] == "on" && !oom) { cpputest_malloc_set_out_of_memory(); oom = true; }
            else if (w[1] != "on" && oom) { cpputest_malloc_set_not_out_of_memory(); oom = false; }
        }
        else if (op == "gnullnew" && w.size() == 2) {
            if (crashalloc) { vh::emit("> skip"); continue; }
            vh::emit("> gnullnew %s", w[1] == "on" ? "on" : "off");
            nullnew = (w[1] == "on");
            if (nullnew) { setCurrentNewAllocator(NullUnknownAllocator::defaultAllocator()); setCurrentNewArrayAllocator(NullUnknownAllocator::defaultAllocator()); }
            else { setCurrentNewAllocatorToDefault(); setCurrentNewArrayAllocatorToDefault(); }
        }
        else if (op == "gmalloc" && w.size() == 4) {                          // gmalloc <size> <label> <seed>
            size_t size = (size_t) vh::to_u64(w[1]); unsigned long seed = vh::to_u64(w[3]);
            vh::emit("> gmalloc %lu %lu", (unsigned long) size, seed);
            void* p; long delta;
            Res r = guarded([&]() { return cpputest_malloc(size); }, p, delta);
            emit_res(r, p);
            if (r == R_PTR) { write_pattern((char*) p, 0, size, seed); labs[w[2]] = mklab((char*) p, size, 2, true, id_of(p), false); }
            vh::emit("delta %ld", delta);
        }
        else if (op == "gcalloc" && w.size() == 5) {                          // gcalloc <num> <size> <label> <seed>
            size_t num = (size_t) vh::to_u64(w[1]), size = (size_t) vh::to_u64(w[2]); unsigned long seed = vh::to_u64(w[4]);
            vh::emit("> gcalloc %lu %lu %lu", (unsigned long) num, (unsigned long) size, seed);
            void* p; long delta;
            Res r = guarded([&]() { return cpputest_calloc(num, size); }, p, delta);
            emit_res(r, p);
            if (r == R_PTR) {
                size_t n = num * size;                 // a non-NULL result for an overflowing product is judged by the oracle
                int bi = find_containing(p);
                size_t avail = bi >= 0 ? g_blk[bi].size : 0;
                size_t shown = n <= avail ? n : avail; // never read outside what the platform really gave
                emit_content((char*) p, shown);
                write_pattern((char*) p, 0, shown, seed);
                labs[w[3]] = mklab((char*) p, shown, 2, true, id_of(p), false);
            }
            vh::emit("delta %ld", delta);
        }
        else if (op == "grealloc" && w.size() == 5) {                         // grealloc <label|null> <size> <newlabel> <seed>
            size_t size = (size_t) vh::to_u64(w[2]); unsigned long seed = vh::to_u64(w[4]);
            char* old = 0; size_t oldsize = 0;
            if (w[1] != "null") {
                if (!labs.count(w[1]) || !labs[w[1]].global || !labs[w[1]].live || labs[w[1]].fam != 2 || oom) { vh::emit("> skip"); continue; }
                old = labs[w[1]].p; oldsize = labs[w[1]].size;
            }
            vh::emit("> grealloc %lu %lu %lu", old ? labs[w[1]].id : 0UL, (unsigned long) size, seed);
            void* p; long delta;
            g_realloc_moved = false;
            Res r = guarded([&]() { return cpputest_realloc(old, size); }, p, delta);
            emit_res(r, p);
            if (r != R_PTR && old && g_realloc_moved) labs[w[1]].live = false;
            if (r == R_PTR) {
                size_t keep = oldsize < size ? oldsize : size;
                emit_content((char*) p, keep);
                write_pattern((char*) p, keep, size, seed);
                if (old) labs[w[1]].live = false;
                labs[w[3]] = mklab((char*) p, size, 2, true, id_of(p), false);
            }
            vh::emit("delta %ld", delta);
        }
        else if ((op == "gstrdup" && w.size() == 3) || (op == "gstrndup" && w.size() == 4)) {   // gstrdup <hex> <label> / gstrndup <hex> <n> <label>
            std::string src = vh::unhex(w[1]);
            // exact-size source buffer (string + terminator): a read past it is an ASan report
            char* buf = (char*) malloc(src.size() + 1);
            memcpy(buf, src.data(), src.size()); buf[src.size()] = 0;
            size_t n = op == "gstrndup" ? (size_t) vh::to_u64(w[2]) : 0;
            const std::string& label = op == "gstrndup" ? w[3] : w[2];
            if (op == "gstrndup") vh::emit("> gstrndup %s %lu", w[1].c_str(), (unsigned long) n);
            else vh::emit("> gstrdup %s", w[1].c_str());
            void* p; long delta;
            Res r = op == "gstrndup" ? guarded([&]() { return (void*) cpputest_strndup(buf, n); }, p, delta)
                                     : guarded([&]() { return (void*) cpputest_strdup(buf); }, p, delta);
            emit_res(r, p);
            if (r == R_PTR) {
                size_t len = strlen((char*) p) + 1;    // ASan bounds the scan
                emit_content((char*) p, len);
                labs[label] = mklab((char*) p, len, 2, true, id_of(p), false);
            }
            vh::emit("delta %ld", delta);
            free(buf);
        }
        else if (op == "gfree" && w.size() == 2) {
            if (!labs.count(w[1]) || !labs[w[1]].global || !labs[w[1]].live || labs[w[1]].fam != 2 || oom) { vh::emit("> skip"); continue; }
            vh::emit("> gfree %lu", labs[w[1]].id);
            void* p; long delta; char* q = labs[w[1]].p;
            guarded([&]() { cpputest_free(q); return (void*) 0; }, p, delta);
            labs[w[1]].live = false;
            vh::emit("delta %ld", delta);
        }
        else if (op == "gnew" && w.size() == 5) {                              // gnew <variant> <size> <label> <seed>
            size_t size = (size_t) vh::to_u64(w[2]); unsigned long seed = vh::to_u64(w[4]);
            const std::string& v = w[1];
            int kind = v == "new" ? 0 : v == "new_nothrow" ? 1 : v == "new_debug" ? 2 : v == "new_array" ? 3 : v == "new_array_nothrow" ? 4 : v == "new_array_debug" ? 5
                     : v == "new_debug_int" ? 6 : v == "new_array_debug_int" ? 7 : -1;
            if (kind < 0) { vh::emit("> skip"); continue; }
            vh::emit("> gnew %s %lu %lu", v.c_str(), (unsigned long) size, seed);
            void* p; long delta;
            Res r = guarded([&]() -> void* {
                switch (kind) {
                    case 0: return operator new(size);
                    case 1: return operator new(size, std::nothrow);
                    case 2: return operator new(size, "h_c05", (size_t) 4);
                    case 3: return operator new[](size);
                    case 4: return operator new[](size, std::nothrow);
                    case 5: return operator new[](size, "h_c05", (size_t) 5);
                    case 6: return operator new(size, "h_c05", (int) 6);          // the (file, int line) overloads
                    default: return operator new[](size, "h_c05", (int) 7);
                } }, p, delta);
            emit_res(r, p);
            if (r == R_PTR) { write_pattern((char*) p, 0, size, seed); labs[w[3]] = mklab((char*) p, size, (kind >= 3 && kind != 6) ? 1 : 0, true, id_of(p), false); }
            vh::emit("delta %ld", delta);
        }
        else if (op == "gdelete" && w.size() == 2) {
            if (!labs.count(w[1]) || !labs[w[1]].global || !labs[w[1]].live || labs[w[1]].fam == 2 || nullnew) { vh::emit("> skip"); continue; }
            vh::emit("> gdelete %lu", labs[w[1]].id);
            void* p; long delta; char* q = labs[w[1]].p; int fam = labs[w[1]].fam;
            guarded([&]() { if (fam == 1) operator delete[](q); else operator delete(q); return (void*) 0; }, p, delta);
            labs[w[1]].live = false;
            vh::emit("delta %ld", delta);
        }
        else if (op == "gdeletex" && w.size() == 3) {                          // gdeletex <loc_int|loc_size|sized|nothrow> <label>: the other operator delete overloads
            const std::string& f = w[1];
            int form = f == "loc_int" ? 0 : f == "loc_size" ? 1 : f == "sized" ? 2 : f == "nothrow" ? 3 : -1;
            if (form < 0 || !labs.count(w[2]) || !labs[w[2]].global || !labs[w[2]].live || labs[w[2]].fam == 2 || nullnew) { vh::emit("> skip"); continue; }
            vh::emit("> gdeletex %s %lu", f.c_str(), labs[w[2]].id);
            void* p; long delta; char* q = labs[w[2]].p; int fam = labs[w[2]].fam; size_t sz = labs[w[2]].size;
            guarded([&]() {
                if (fam == 1) {
                    if (form == 0) operator delete[](q, "h_c05", (int) 8); else if (form == 1) operator delete[](q, "h_c05", (size_t) 8);
                    else if (form == 2) operator delete[](q, sz); else operator delete[](q, std::nothrow);
                } else {
                    if (form == 0) operator delete(q, "h_c05", (int) 8); else if (form == 1) operator delete(q, "h_c05", (size_t) 8);
                    else if (form == 2) operator delete(q, sz); else operator delete(q, std::nothrow);
                }
                return (void*) 0; }, p, delta);
            labs[w[2]].live = false;
            vh::emit("delta %ld", delta);
        }
        else if (op == "gthreadsafe" && w.size() == 2) {                        // the threadsafe_mem_leak_* entry points (same functions behind the detector's mutex)
            bool on = w[1] == "on";
            if (nullnew || on == tsafe) { vh::emit("> skip"); continue; }
            vh::emit("> gthreadsafe %s", on ? "on" : "off");
            tsafe = on;
            if (on) MemoryLeakWarningPlugin::turnOnThreadSafeNewDeleteOverloads(); else MemoryLeakWarningPlugin::turnOnDefaultNotThreadSafeNewDeleteOverloads();
        }
        else if (op == "gcrashalloc" && w.size() == 2) {                        // CrashOnAllocationAllocator (crash number 0 = never) as the current allocator of all three families
            bool on = w[1] == "on";
            bool anylive = false;
            for (std::map<std::string, Lab>::iterator it = labs.begin(); it != labs.end(); ++it) if (it->second.global && it->second.live) anylive = true;
            if (anylive || oom || nullnew || on == crashalloc) { vh::emit("> skip"); continue; }     // blocks must be released through the allocator that handed them out
            vh::emit("> gcrashalloc %s", on ? "on" : "off");
            crashalloc = on;
            if (on) { setCurrentNewAllocator(&crash_new); setCurrentNewArrayAllocator(&crash_arr); setCurrentMallocAllocator(&crash_mal); }
            else { setCurrentNewAllocatorToDefault(); setCurrentNewArrayAllocatorToDefault(); setCurrentMallocAllocatorToDefault(); }
        }
        else if (op == "finish" && w.size() == 1) {
            vh::emit_op("finish");
            if (oom) { cpputest_malloc_set_not_out_of_memory(); oom = false; }
            if (nullnew) { setCurrentNewAllocatorToDefault(); setCurrentNewArrayAllocatorToDefault(); nullnew = false; }
            g_fail_alloc = g_fail_node = g_fail_realloc = g_fail_pmalloc = 0;
            unsigned long before = reporter.count;
            size_t gbefore = gd->totalMemoryLeaks(mem_leak_period_all);
            unsigned long gfreed = 0;
            g_quiet = true;
            for (std::map<std::string, Lab>::iterator it = labs.begin(); it != labs.end(); ++it) {
                Lab& l = it->second;
                if (!l.live) continue;
                if (!l.global) { if (!l.big) det.invalidateMemory(l.p); det.deallocMemory(allocs[l.fam], l.p, "h_c05", 9, l.sep); }
                else {
                    gfreed++;
                    g_bracket = true;
                    if (l.fam == 2) cpputest_free(l.p); else if (l.fam == 1) operator delete[](l.p); else operator delete(l.p);
                    g_bracket = false;
                }
                l.live = false;
            }
            g_quiet = false;
            if (tsafe) { MemoryLeakWarningPlugin::turnOnDefaultNotThreadSafeNewDeleteOverloads(); tsafe = false; }
            if (crashalloc) { setCurrentNewAllocatorToDefault(); setCurrentNewArrayAllocatorToDefault(); setCurrentMallocAllocatorToDefault(); crashalloc = false; }
            vh::emit("cleanup-misuse %lu", reporter.count - before);
            vh::emit("total %lu", (unsigned long) det.totalMemoryLeaks(mem_leak_period_all));
            vh::emit("gfreed %lu %ld", gfreed, (long) gd->totalMemoryLeaks(mem_leak_period_all) - (long) gbefore);
            vh::emit("failures %lu", (unsigned long) (vh::g_fixture ? vh::g_fixture->getFailureCount() : 0));
        }
        else vh::emit("> skip");
    }
    // whatever is still live at the end (no `finish`): release quietly so the detector is destroyed clean
    g_quiet = true;
    if (oom) cpputest_malloc_set_not_out_of_memory();
    if (nullnew) { setCurrentNewAllocatorToDefault(); setCurrentNewArrayAllocatorToDefault(); }
    g_fail_alloc = g_fail_node = g_fail_realloc = g_fail_pmalloc = 0;
    for (std::map<std::string, Lab>::iterator it = labs.begin(); it != labs.end(); ++it) {
        Lab& l = it->second;
        if (!l.live) continue;
        if (!l.global) det.deallocMemory(allocs[l.fam], l.p, "h_c05", 9, l.sep);
        else if (l.fam == 2) cpputest_free(l.p); else if (l.fam == 1) operator delete[](l.p); else operator delete(l.p);
    }
    if (crashalloc) { setCurrentNewAllocatorToDefault(); setCurrentNewArrayAllocatorToDefault(); setCurrentMallocAllocatorToDefault(); }
    if (tsafe) MemoryLeakWarningPlugin::turnOnDefaultNotThreadSafeNewDeleteOverloads();
    g_quiet = false;
}

void run_case(const vh::Case& c) {
    g_case = &c;
    MemoryLeakWarningPlugin::turnOnDefaultNotThreadSafeNewDeleteOverloads();    // (child process) the code under test
    real_malloc = PlatformSpecificMalloc; real_realloc = PlatformSpecificRealloc; real_free = PlatformSpecificFree;
    PlatformSpecificMalloc = seam_malloc; PlatformSpecificRealloc = seam_realloc; PlatformSpecificFree = seam_free;
    size_t failures = vh::in_fixture(body);
    PlatformSpecificMalloc = real_malloc; PlatformSpecificRealloc = real_realloc; PlatformSpecificFree = real_free;
    (void) failures;
}

} // namespace

int main() {
    // The parent only reads the cases and forks: keep its own containers away from the operator new under test,
    // so that a broken tracked allocation path shows up as a failing CASE, not as a dead harness.
    MemoryLeakWarningPlugin::turnOffNewDeleteOverloads();
    return vh::run_all(run_case);
}
