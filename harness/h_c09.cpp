// C09 correspondence harness: builds real MockNamedValue objects from value tokens, calls the real
// MockNamedValue::equals in both directions and every getter inside a real test (fixture.h), and drives the rest
// of MockNamedValue.cpp (toString, compatibleForCopying, names, MockNamedValueList, the comparator/copier repository).
//
// ops:   eq <A> <B>        -> "r <a.equals(b)> <b.equals(a)>"
//        get <A>           -> one line per integer getter: "<getter> ok <decimal>" | "<getter> fail"
//        getx <A>          -> the other getters: "<getter> ok <rendering>" | "<getter> fail" (object getters for obj/cobj only)
//        tostr <A>         -> environment lines "g6 <hex>" (finite double: snprintf %.6g) / "addr <decimal>" (pointer payload),
//                             then "t <hex of getType()>" and "s <hex of toString()>"
//        eqapi <E> <A>     -> whole-scenario check inside a real test: the expectation f(p = E) is set up and the actual call f(p = A)
//                             made through a chosen typed entry point of the API, then checkExpectations(): "p <1 pass|0 fail>"
//                             E, A = <entry>.<kind>:<n>, entry = ovl (C++ withParameter overload) | exp (C++ explicit
//                             with…IntParameter) | c (C mock_c()->…->with…IntParameters), kind = int uint long ulong llong ullong
//        eqapix <E> <A>    -> like eqapi for ALL parameter kinds: E, A = <entry>.<value token>; value tokens as below (bool, dbl with tolerance
//                             [expectation side only], dbld, str, mem, ptr, cptr, fptr and the six integer kinds); the C interface takes an
//                             `int` for a bool: c.bool:<any int>.  "p <1 pass|0 fail>"
//        dset <cpp|c> <name> <A> -> the data store of mock(): mock().setData(name, <typed value>) / setDataObject / setDataConstObject, or the C
//                             functions mock_c()->set…Data; A = bool (C: any int) int uint dbld str ptr cptr fptr obj cobj.  A name that is
//                             already present is re-written IN PLACE.
//        dget <name>       -> v = mock().getData(name): "t <hex of type>" "cmp <comparator id> <copier id>", then the six integer getters
//                             on it, each in a fresh test (as `get`)
//        deq <n1> <n2>     -> "r <getData(n1).equals(getData(n2))> <the other way round>";  dhas <name> -> "has <0|1>"
//        dinstall <Type> <id> / dcopier <Type> <id> / dremove / dclear     mock().installComparator / installCopier /
//                             removeAllComparatorsAndCopiers / clear (eqapi, eqapix and getret also clear the data store)
//        cell <A1> … <An>  -> ONE MockNamedValue object receives the setters of A1 … An in order (default repository as set by rdefault):
//                             "t <hex of type>" "size <getSize>" "cmp <comparator id> <copier id>" and "r <v.equals(f)> <f.equals(v)>" with f a
//                             fresh value built from An alone (under the default repository in force at the end); a token def:<r|none>
//                             between two values switches the default repository (and leaves it switched)
//        getret <V|none> <d> -> a return value V = <kind>:<n> is stored with andReturnValue(<typed value>) (none: no return value), the call
//                             is made, and EVERY integer reader reads it back, each in a fresh test: MockActualCall::return…Value(),
//                             return…ValueOrDefault(d), mock().…ReturnValue(), mock().return…ValueOrDefault(d):
//                             "<call|support>.<reader> ok <decimal>" | "… fail"
//        compat <A> <B>    -> "c <a.compatibleForCopying(b)> <b.compatibleForCopying(a)>"
//        name <X> <Y>      -> MockNamedValue(X): "n0 <getName>" "t0 <getType>" "s0 <toString>"; setName(Y): "n1 <getName>"
//        ladd <name> <A> / lget <name> / llist / lclear          the case's MockNamedValueList (items numbered from 1)
//        rcmp <r> <Type> <id> / rcop <r> <Type> <id> / rget <r> <Type> / rimport <r> <r2> / rclear <r> / rdefault <r|none>
//                             four repositories r = 0..3; 0 starts with CmpMod3 -> comparator 1, CmpId -> comparator 2
//                             and is the default repository; comparators 1 (k%3 equal) 2 (k equal) 3 (always) 4 (never),
//                             copiers 1..2
// value tokens (one word):
//        int:<n> uint:<n> long:<n> ulong:<n> llong:<n> ullong:<n>     decimal or 0x hex, must fit the type
//        bool:<0|1>   dbl:<16 hex: value bits>:<16 hex: tolerance bits>   dbld:<16 hex>  (setValue(double): default tolerance)
//        str:<hex bytes|-|null>   mem:<hex bytes|->
//        ptr:<k> cptr:<k> fptr:<k>            k = index into a fixed pool, 0 = NULL
//        obj:<Type>:<k> cobj:<Type>:<k>       setObjectPointer / setConstObjectPointer (comparator/copier looked up in the
//                                            default repository at that moment)
// The echoed op is canonical (integers re-printed from the stored C value).
#include "fixture.h"
#include "CppUTestExt/MockNamedValue.h"
#include "CppUTestExt/MockSupport.h"
#include "CppUTestExt/MockSupport_c.h"
#include <cerrno>
#include <climits>
#include <cstdint>

#undef new

namespace {

const int POOL = 16;
char g_pool[POOL + 1];
void f0() {} void f1() {} void f2() {} void f3() {} void f4() {} void f5() {} void f6() {} void f7() {}
typedef void (*Fn)();
Fn g_fns[] = { 0, f0, f1, f2, f3, f4, f5, f6, f7 };
const int NFN = (int) (sizeof(g_fns) / sizeof(g_fns[0]));

int pool_index(const void* p) { return p ? (int) ((const char*) p - g_pool) : 0; }

// comparator objects 1..4 and copier objects 1..2 (0 = none)
struct TestComparator : public MockNamedValueComparator {
    int id;
    explicit TestComparator(int i) : id(i) {}
    bool isEqual(const void* a, const void* b) CPPUTEST_OVERRIDE {
        switch (id) {
            case 1: return pool_index(a) % 3 == pool_index(b) % 3;
            case 2: return a == b;
            case 3: return true;
            default: return false;
        }
    }
    SimpleString valueToString(const void* a) CPPUTEST_OVERRIDE {
        switch (id) {
            case 1: case 2: return StringFrom(pool_index(a));
            case 3: return SimpleString("T") + StringFrom(pool_index(a));
            default: return "";
        }
    }
};
struct TestCopier : public MockNamedValueCopier {
    void copy(void*, const void*) CPPUTEST_OVERRIDE {}
};
TestComparator g_cmp1(1), g_cmp2(2), g_cmp3(3), g_cmp4(4);
TestComparator* g_cmps[5] = { 0, &g_cmp1, &g_cmp2, &g_cmp3, &g_cmp4 };
TestCopier g_cop1, g_cop2;
TestCopier* g_cops[3] = { 0, &g_cop1, &g_cop2 };
int cmp_id(MockNamedValueComparator* c) { for (int i = 1; i < 5; i++) if (g_cmps[i] == c) return i; return c ? -1 : 0; }
int cop_id(MockNamedValueCopier* c) { for (int i = 1; i < 3; i++) if (g_cops[i] == c) return i; return c ? -1 : 0; }
int fn_index(void (*f)()) { for (int i = 1; i < NFN; i++) if (g_fns[i] == f) return i; return f ? -1 : 0; }

bool is_hex(const std::string& h) {
    if (h == "-") return true;
    if (h.size() % 2) return false;
    for (size_t i = 0; i < h.size(); i++) if (vh::hexval(h[i]) < 0) return false;
    return !h.empty();
}

bool parse_signed(const std::string& s, long long lo, long long hi, long long& out) {
    if (s.empty() || s.size() > 40) return false;
    errno = 0; char* end = 0;
    long long v = strtoll(s.c_str(), &end, 0);
    if (errno || !end || *end || end == s.c_str()) return false;
    if (v < lo || v > hi) return false;
    out = v; return true;
}
bool parse_unsigned(const std::string& s, unsigned long long hi, unsigned long long& out) {
    if (s.empty() || s.size() > 40 || s[0] == '-' || s[0] == '+') return false;
    errno = 0; char* end = 0;
    unsigned long long v = strtoull(s.c_str(), &end, 0);
    if (errno || !end || *end || end == s.c_str()) return false;
    if (v > hi) return false;
    out = v; return true;
}
bool parse_index(const std::string& s, int limit, int& out) {
    unsigned long long v;
    if (!parse_unsigned(s, (unsigned long long) limit, v)) return false;
    out = (int) v; return true;
}
bool parse_bits(const std::string& h, double& d) {
    if (h.size() != 16) return false;
    uint64_t u = 0;
    for (size_t i = 0; i < 16; i++) { int x = vh::hexval(h[i]); if (x < 0) return false; u = (u << 4) | (uint64_t) x; }
    memcpy(&d, &u, 8); return true;
}
std::string lower(std::string s) { for (size_t i = 0; i < s.size(); i++) if (s[i] >= 'A' && s[i] <= 'F') s[i] = (char) (s[i] + 32); return s; }

bool valid_type(const std::string& type);
// storage that must outlive the MockNamedValue (strings and buffers are held by pointer)
struct Store { std::string s; std::vector<unsigned char> m; };

// builds `v` from `tok`; returns the canonical token or "" when the token is not valid
std::string build(MockNamedValue& v, const std::string& tok, Store& st) {
    size_t c = tok.find(':');
    if (c == std::string::npos) return "";
    std::string kind = tok.substr(0, c), rest = tok.substr(c + 1);
    char buf[96];
    long long sv; unsigned long long uv; int k;
    if (kind == "int") { if (!parse_signed(rest, INT_MIN, INT_MAX, sv)) return ""; v.setValue((int) sv); snprintf(buf, sizeof buf, "int:%d", (int) sv); return buf; }
    if (kind == "uint") { if (!parse_unsigned(rest, UINT_MAX, uv)) return ""; v.setValue((unsigned int) uv); snprintf(buf, sizeof buf, "uint:%u", (unsigned int) uv); return buf; }
    if (kind == "long") { if (!parse_signed(rest, LONG_MIN, LONG_MAX, sv)) return ""; v.setValue((long int) sv); snprintf(buf, sizeof buf, "long:%ld", (long int) sv); return buf; }
    if (kind == "ulong") { if (!parse_unsigned(rest, ULONG_MAX, uv)) return ""; v.setValue((unsigned long int) uv); snprintf(buf, sizeof buf, "ulong:%lu", (unsigned long int) uv); return buf; }
    if (kind == "llong") { if (!parse_signed(rest, LLONG_MIN, LLONG_MAX, sv)) return ""; v.setValue((cpputest_longlong) sv); snprintf(buf, sizeof buf, "llong:%lld", (long long) sv); return buf; }
    if (kind == "ullong") { if (!parse_unsigned(rest, ULLONG_MAX, uv)) return ""; v.setValue((cpputest_ulonglong) uv); snprintf(buf, sizeof buf, "ullong:%llu", (unsigned long long) uv); return buf; }
    if (kind == "bool") { if (rest != "0" && rest != "1") return ""; v.setValue(rest == "1"); return "bool:" + rest; }
    if (kind == "dbl") {
        size_t c2 = rest.find(':');
        if (c2 == std::string::npos) return "";
        double d, t;
        if (!parse_bits(rest.substr(0, c2), d) || !parse_bits(rest.substr(c2 + 1), t)) return "";
        v.setValue(d, t);
        return "dbl:" + lower(rest);
    }
    if (kind == "dbld") {
        double d;
        if (!parse_bits(rest, d)) return "";
        v.setValue(d);
        return "dbld:" + lower(rest);
    }
    if (kind == "str") {
        if (rest == "null") { v.setValue((const char*) 0); return "str:null"; }
        if (!is_hex(rest)) return "";
        st.s = vh::unhex(rest);
        v.setValue(st.s.c_str());
        return "str:" + lower(rest);
    }
    if (kind == "mem") {
        if (!is_hex(rest)) return "";
        std::string b = vh::unhex(rest);
        st.m.assign(b.begin(), b.end());
        st.m.push_back(0xEE);            // data() stays non-NULL for size 0; the extra byte is never part of the buffer
        v.setMemoryBuffer(&st.m[0], b.size());
        return "mem:" + lower(rest);
    }
    if (kind == "ptr") { if (!parse_index(rest, POOL, k)) return ""; v.setValue((void*) (k ? g_pool + k : 0)); snprintf(buf, sizeof buf, "ptr:%d", k); return buf; }
    if (kind == "cptr") { if (!parse_index(rest, POOL, k)) return ""; v.setValue((const void*) (k ? g_pool + k : 0)); snprintf(buf, sizeof buf, "cptr:%d", k); return buf; }
    if (kind == "fptr") { if (!parse_index(rest, NFN - 1, k)) return ""; v.setValue(g_fns[k]); snprintf(buf, sizeof buf, "fptr:%d", k); return buf; }
    if (kind == "obj" || kind == "cobj") {
        size_t c2 = rest.find(':');
        if (c2 == std::string::npos || c2 == 0) return "";
        std::string type = rest.substr(0, c2);
        // a custom type named like a built-in one makes equals/getters read an inactive union member:
        // outside the property's quantifier (ASSUMPTIONS: Mock.WF)
        if (!valid_type(type)) return "";
        if (!parse_index(rest.substr(c2 + 1), POOL, k)) return "";
        if (kind == "obj") v.setObjectPointer(type.c_str(), (void*) (k ? g_pool + k : 0));
        else v.setConstObjectPointer(type.c_str(), (const void*) (k ? g_pool + k : 0));
        snprintf(buf, sizeof buf, ":%d", k);
        return kind + ":" + type + buf;
    }
    return "";
}

bool valid_type(const std::string& type) {
    if (type.empty() || type.size() > 24) return false;
    for (size_t i = 0; i < type.size(); i++) if (!isalnum((unsigned char) type[i])) return false;
    return !(type == "int" || type == "bool" || type == "double");
}
std::string kind_of(const std::string& tok) { size_t c = tok.find(':'); return c == std::string::npos ? tok : tok.substr(0, c); }
std::string shex(const SimpleString& x) { return vh::hex(x.asCharString(), x.size()); }
bool name_arg(const std::string& w, std::string& store, const char*& out) {      // hex | - | null
    if (w == "null") { out = 0; return true; }
    if (!is_hex(w)) return false;
    store = vh::unhex(w); out = store.c_str(); return true;
}
std::string dclass(double d) {
    char buf[32];
    if (d != d) return "nan";
    if (d > 1.7976931348623157e308) return "inf+";
    if (d < -1.7976931348623157e308) return "inf-";
    uint64_t u; memcpy(&u, &d, 8); snprintf(buf, sizeof buf, "%016llx", (unsigned long long) u); return buf;
}

// ---- getters, each inside a real test
const std::string* g_tok = 0;
int g_which = 0;
bool g_returned = false;
char g_result[64];
std::string g_xresult;

void getter_body() {
    MockNamedValue v("g");
    Store st;
    build(v, *g_tok, st);
    g_returned = false;
    char buf[64];
    switch (g_which) {
        case 0: { int r = v.getIntValue(); snprintf(g_result, sizeof g_result, "%d", r); break; }
        case 1: { unsigned int r = v.getUnsignedIntValue(); snprintf(g_result, sizeof g_result, "%u", r); break; }
        case 2: { long int r = v.getLongIntValue(); snprintf(g_result, sizeof g_result, "%ld", r); break; }
        case 3: { unsigned long int r = v.getUnsignedLongIntValue(); snprintf(g_result, sizeof g_result, "%lu", r); break; }
        case 4: { cpputest_longlong r = v.getLongLongIntValue(); snprintf(g_result, sizeof g_result, "%lld", (long long) r); break; }
        case 5: { cpputest_ulonglong r = v.getUnsignedLongLongIntValue(); snprintf(g_result, sizeof g_result, "%llu", (unsigned long long) r); break; }
        // the other getters
        case 10: { bool r = v.getBoolValue(); g_xresult = r ? "1" : "0"; break; }
        case 11: { double r = v.getDoubleValue(); g_xresult = dclass(r); break; }
        case 12: { double r = v.getDoubleTolerance(); g_xresult = dclass(r); break; }
        case 13: { const char* r = v.getStringValue(); g_xresult = r ? vh::hex(r, strlen(r)) : std::string("null"); break; }
        case 14: { void* r = v.getPointerValue(); snprintf(buf, sizeof buf, "%d", pool_index(r)); g_xresult = buf; break; }
        case 15: { const void* r = v.getConstPointerValue(); snprintf(buf, sizeof buf, "%d", pool_index(r)); g_xresult = buf; break; }
        case 16: { void (*r)() = v.getFunctionPointerValue(); snprintf(buf, sizeof buf, "%d", fn_index(r)); g_xresult = buf; break; }
        case 17: { const unsigned char* r = v.getMemoryBuffer(); g_xresult = vh::hex(r, v.getSize()); break; }
        case 18: { size_t r = v.getSize(); snprintf(buf, sizeof buf, "%lu", (unsigned long) r); g_xresult = buf; break; }
        case 19: { void* r = v.getObjectPointer(); snprintf(buf, sizeof buf, "%d", pool_index(r)); g_xresult = buf; break; }
        case 20: { const void* r = v.getConstObjectPointer(); snprintf(buf, sizeof buf, "%d", pool_index(r)); g_xresult = buf; break; }
        case 21: { snprintf(buf, sizeof buf, "%d", cmp_id(v.getComparator())); g_xresult = buf; break; }
        case 22: { snprintf(buf, sizeof buf, "%d", cop_id(v.getCopier())); g_xresult = buf; break; }
    }
    g_returned = true;
}

// ---- eqapi: expectation and actual call through typed API entry points
struct ApiVal { std::string api, kind; long long s; unsigned long long u; std::string canon; };
bool parse_apival(const std::string& tok, ApiVal& v) {
    size_t d = tok.find('.'), c = tok.find(':');
    if (d == std::string::npos || c == std::string::npos || d > c) return false;
    v.api = tok.substr(0, d); v.kind = tok.substr(d + 1, c - d - 1);
    std::string rest = tok.substr(c + 1);
    if (v.api != "ovl" && v.api != "exp" && v.api != "c") return false;
    char buf[64]; v.s = 0; v.u = 0;
    if (v.kind == "int") { if (!parse_signed(rest, INT_MIN, INT_MAX, v.s)) return false; snprintf(buf, sizeof buf, "%lld", v.s); }
    else if (v.kind == "long" || v.kind == "llong") { if (!parse_signed(rest, LLONG_MIN, LLONG_MAX, v.s)) return false; snprintf(buf, sizeof buf, "%lld", v.s); }
    else if (v.kind == "uint") { if (!parse_unsigned(rest, UINT_MAX, v.u)) return false; snprintf(buf, sizeof buf, "%llu", v.u); }
    else if (v.kind == "ulong" || v.kind == "ullong") { if (!parse_unsigned(rest, ULLONG_MAX, v.u)) return false; snprintf(buf, sizeof buf, "%llu", v.u); }
    else return false;
    v.canon = v.api + "." + v.kind + ":" + buf;
    return true;
}
ApiVal g_ev, g_av;
void eqapi_body() {
    mock().clear();
    const ApiVal& e = g_ev; const ApiVal& a = g_av;
    if (e.api == "c") {
        MockExpectedCall_c* x = mock_c()->expectOneCall("f");
        if (e.kind == "int") x->withIntParameters("p", (int) e.s);
        else if (e.kind == "uint") x->withUnsignedIntParameters("p", (unsigned int) e.u);
        else if (e.kind == "long") x->withLongIntParameters("p", (long int) e.s);
        else if (e.kind == "ulong") x->withUnsignedLongIntParameters("p", (unsigned long int) e.u);
        else if (e.kind == "llong") x->withLongLongIntParameters("p", (cpputest_longlong) e.s);
        else x->withUnsignedLongLongIntParameters("p", (cpputest_ulonglong) e.u);
    }
    else {
        MockExpectedCall& x = mock().expectOneCall("f");
        bool o = e.api == "ovl";
        if (e.kind == "int") { if (o) x.withParameter("p", (int) e.s); else x.withIntParameter("p", (int) e.s); }
        else if (e.kind == "uint") { if (o) x.withParameter("p", (unsigned int) e.u); else x.withUnsignedIntParameter("p", (unsigned int) e.u); }
        else if (e.kind == "long") { if (o) x.withParameter("p", (long int) e.s); else x.withLongIntParameter("p", (long int) e.s); }
        else if (e.kind == "ulong") { if (o) x.withParameter("p", (unsigned long int) e.u); else x.withUnsignedLongIntParameter("p", (unsigned long int) e.u); }
        else if (e.kind == "llong") { if (o) x.withParameter("p", (cpputest_longlong) e.s); else x.withLongLongIntParameter("p", (cpputest_longlong) e.s); }
        else { if (o) x.withParameter("p", (cpputest_ulonglong) e.u); else x.withUnsignedLongLongIntParameter("p", (cpputest_ulonglong) e.u); }
    }
    if (a.api == "c") {
        MockActualCall_c* x = mock_c()->actualCall("f");
        if (a.kind == "int") x->withIntParameters("p", (int) a.s);
        else if (a.kind == "uint") x->withUnsignedIntParameters("p", (unsigned int) a.u);
        else if (a.kind == "long") x->withLongIntParameters("p", (long int) a.s);
        else if (a.kind == "ulong") x->withUnsignedLongIntParameters("p", (unsigned long int) a.u);
        else if (a.kind == "llong") x->withLongLongIntParameters("p", (cpputest_longlong) a.s);
        else x->withUnsignedLongLongIntParameters("p", (cpputest_ulonglong) a.u);
    }
    else {
        MockActualCall& x = mock().actualCall("f");
        bool o = a.api == "ovl";
        if (a.kind == "int") { if (o) x.withParameter("p", (int) a.s); else x.withIntParameter("p", (int) a.s); }
        else if (a.kind == "uint") { if (o) x.withParameter("p", (unsigned int) a.u); else x.withUnsignedIntParameter("p", (unsigned int) a.u); }
        else if (a.kind == "long") { if (o) x.withParameter("p", (long int) a.s); else x.withLongIntParameter("p", (long int) a.s); }
        else if (a.kind == "ulong") { if (o) x.withParameter("p", (unsigned long int) a.u); else x.withUnsignedLongIntParameter("p", (unsigned long int) a.u); }
        else if (a.kind == "llong") { if (o) x.withParameter("p", (cpputest_longlong) a.s); else x.withLongLongIntParameter("p", (cpputest_longlong) a.s); }
        else { if (o) x.withParameter("p", (cpputest_ulonglong) a.u); else x.withUnsignedLongLongIntParameter("p", (cpputest_ulonglong) a.u); }
    }
    mock().checkExpectations();
}

// ---- eqapix: expectation and actual call through typed API entry points, every parameter kind
struct XVal { std::string api, kind, canon; long long s; unsigned long long u; double d, t; bool null; std::string str; std::vector<unsigned char> mem; int k; };
bool parse_xval(const std::string& tok, bool expected, XVal& v) {
    size_t d = tok.find('.');
    if (d == std::string::npos) return false;
    v.api = tok.substr(0, d);
    if (v.api != "ovl" && v.api != "exp" && v.api != "c") return false;
    std::string val = tok.substr(d + 1);
    size_t c = val.find(':');
    if (c == std::string::npos) return false;
    v.kind = val.substr(0, c);
    std::string rest = val.substr(c + 1);
    v.s = 0; v.u = 0; v.d = 0; v.t = 0; v.null = false; v.k = 0; v.str.clear(); v.mem.clear();
    char buf[96];
    if (v.kind == "int" || v.kind == "uint" || v.kind == "long" || v.kind == "ulong" || v.kind == "llong" || v.kind == "ullong") {
        ApiVal a;
        if (!parse_apival(tok, a)) return false;
        v.s = a.s; v.u = a.u; v.canon = a.canon; return true;
    }
    if (v.kind == "bool") {
        if (v.api == "c") { if (!parse_signed(rest, INT_MIN, INT_MAX, v.s)) return false; }
        else { if (rest != "0" && rest != "1") return false; v.s = rest == "1"; }
        snprintf(buf, sizeof buf, "%lld", v.s); v.canon = v.api + ".bool:" + buf; return true;
    }
    if (v.kind == "dbl") {
        if (!expected) return false;                 // no tolerance argument on the actual side
        size_t c2 = rest.find(':');
        if (c2 == std::string::npos) return false;
        if (!parse_bits(rest.substr(0, c2), v.d) || !parse_bits(rest.substr(c2 + 1), v.t)) return false;
        v.canon = v.api + ".dbl:" + lower(rest); return true;
    }
    if (v.kind == "dbld") { if (!parse_bits(rest, v.d)) return false; v.canon = v.api + ".dbld:" + lower(rest); return true; }
    if (v.kind == "str") {
        if (rest == "null") { v.null = true; v.canon = v.api + ".str:null"; return true; }
        if (!is_hex(rest)) return false;
        v.str = vh::unhex(rest); v.canon = v.api + ".str:" + lower(rest); return true;
    }
    if (v.kind == "mem") {
        if (!is_hex(rest)) return false;
        std::string b = vh::unhex(rest);
        v.mem.assign(b.begin(), b.end()); v.mem.push_back(0xEE);
        v.u = b.size(); v.canon = v.api + ".mem:" + lower(rest); return true;
    }
    if (v.kind == "ptr" || v.kind == "cptr") { if (!parse_index(rest, POOL, v.k)) return false; snprintf(buf, sizeof buf, ":%d", v.k); v.canon = v.api + "." + v.kind + buf; return true; }
    if (v.kind == "fptr") { if (!parse_index(rest, NFN - 1, v.k)) return false; snprintf(buf, sizeof buf, ":%d", v.k); v.canon = v.api + ".fptr" + buf; return true; }
    return false;
}
XVal g_xe, g_xa;
// C++ side: T = MockExpectedCall or MockActualCall
template <class T> void cpp_param(T& x, const XVal& v, bool with_tolerance_allowed) {
    bool o = v.api == "ovl";
    void* vp = v.k ? (void*) (g_pool + v.k) : (void*) 0;
    const char* sp = v.null ? (const char*) 0 : v.str.c_str();
    if (v.kind == "int") { if (o) x.withParameter("p", (int) v.s); else x.withIntParameter("p", (int) v.s); }
    else if (v.kind == "uint") { if (o) x.withParameter("p", (unsigned int) v.u); else x.withUnsignedIntParameter("p", (unsigned int) v.u); }
    else if (v.kind == "long") { if (o) x.withParameter("p", (long int) v.s); else x.withLongIntParameter("p", (long int) v.s); }
    else if (v.kind == "ulong") { if (o) x.withParameter("p", (unsigned long int) v.u); else x.withUnsignedLongIntParameter("p", (unsigned long int) v.u); }
    else if (v.kind == "llong") { if (o) x.withParameter("p", (cpputest_longlong) v.s); else x.withLongLongIntParameter("p", (cpputest_longlong) v.s); }
    else if (v.kind == "ullong") { if (o) x.withParameter("p", (cpputest_ulonglong) v.u); else x.withUnsignedLongLongIntParameter("p", (cpputest_ulonglong) v.u); }
    else if (v.kind == "bool") { if (o) x.withParameter("p", v.s != 0); else x.withBoolParameter("p", v.s != 0); }
    else if (v.kind == "dbld") { if (o) x.withParameter("p", v.d); else x.withDoubleParameter("p", v.d); }
    else if (v.kind == "str") { if (o) x.withParameter("p", sp); else x.withStringParameter("p", sp); }
    else if (v.kind == "ptr") { if (o) x.withParameter("p", vp); else x.withPointerParameter("p", vp); }
    else if (v.kind == "cptr") { if (o) x.withParameter("p", (const void*) vp); else x.withConstPointerParameter("p", (const void*) vp); }
    else if (v.kind == "fptr") { if (o) x.withParameter("p", g_fns[v.k]); else x.withFunctionPointerParameter("p", g_fns[v.k]); }
    else if (v.kind == "mem") { if (o) x.withParameter("p", (const unsigned char*) &v.mem[0], (size_t) v.u); else x.withMemoryBufferParameter("p", &v.mem[0], (size_t) v.u); }
    (void) with_tolerance_allowed;
}
// C side: T = MockExpectedCall_c or MockActualCall_c
template <class T> void c_param(T* x, const XVal& v) {
    void* vp = v.k ? (void*) (g_pool + v.k) : (void*) 0;
    const char* sp = v.null ? (const char*) 0 : v.str.c_str();
    if (v.kind == "int") x->withIntParameters("p", (int) v.s);
    else if (v.kind == "uint") x->withUnsignedIntParameters("p", (unsigned int) v.u);
    else if (v.kind == "long") x->withLongIntParameters("p", (long int) v.s);
    else if (v.kind == "ulong") x->withUnsignedLongIntParameters("p", (unsigned long int) v.u);
    else if (v.kind == "llong") x->withLongLongIntParameters("p", (cpputest_longlong) v.s);
    else if (v.kind == "ullong") x->withUnsignedLongLongIntParameters("p", (cpputest_ulonglong) v.u);
    else if (v.kind == "bool") x->withBoolParameters("p", (int) v.s);
    else if (v.kind == "dbld") x->withDoubleParameters("p", v.d);
    else if (v.kind == "str") x->withStringParameters("p", sp);
    else if (v.kind == "ptr") x->withPointerParameters("p", vp);
    else if (v.kind == "cptr") x->withConstPointerParameters("p", (const void*) vp);
    else if (v.kind == "fptr") x->withFunctionPointerParameters("p", g_fns[v.k]);
    else if (v.kind == "mem") x->withMemoryBufferParameter("p", &v.mem[0], (size_t) v.u);
}
void eqapix_body() {
    mock().clear();
    const XVal& e = g_xe; const XVal& a = g_xa;
    if (e.api == "c") {
        MockExpectedCall_c* x = mock_c()->expectOneCall("f");
        if (e.kind == "dbl") x->withDoubleParametersAndTolerance("p", e.d, e.t); else c_param(x, e);
    }
    else {
        MockExpectedCall& x = mock().expectOneCall("f");
        if (e.kind == "dbl") { if (e.api == "ovl") x.withParameter("p", e.d, e.t); else x.withDoubleParameter("p", e.d, e.t); }
        else cpp_param(x, e, true);
    }
    if (a.api == "c") c_param(mock_c()->actualCall("f"), a);
    else cpp_param(mock().actualCall("f"), a, false);
    mock().checkExpectations();
}

// ---- data store of mock()
std::string g_dname;
void dget_body() {
    g_returned = false;
    MockNamedValue v = mock().getData(g_dname.c_str());
    switch (g_which) {
        case 0: { int r = v.getIntValue(); snprintf(g_result, sizeof g_result, "%d", r); break; }
        case 1: { unsigned int r = v.getUnsignedIntValue(); snprintf(g_result, sizeof g_result, "%u", r); break; }
        case 2: { long int r = v.getLongIntValue(); snprintf(g_result, sizeof g_result, "%ld", r); break; }
        case 3: { unsigned long int r = v.getUnsignedLongIntValue(); snprintf(g_result, sizeof g_result, "%lu", r); break; }
        case 4: { cpputest_longlong r = v.getLongLongIntValue(); snprintf(g_result, sizeof g_result, "%lld", (long long) r); break; }
        case 5: { cpputest_ulonglong r = v.getUnsignedLongLongIntValue(); snprintf(g_result, sizeof g_result, "%llu", (unsigned long long) r); break; }
    }
    g_returned = true;
}
// performs one data write; returns the canonical token or "" (nothing done)
std::string data_set(const std::string& api, const char* name, const std::string& tok, Store& st) {
    size_t c = tok.find(':');
    if (c == std::string::npos) return "";
    std::string kind = tok.substr(0, c), rest = tok.substr(c + 1);
    bool C = api == "c";
    char buf[96]; long long sv; unsigned long long uv; int k; double d;
    if (kind == "bool") {
        if (C) { if (!parse_signed(rest, INT_MIN, INT_MAX, sv)) return ""; mock_c()->setBoolData(name, (int) sv); }
        else { if (rest != "0" && rest != "1") return ""; sv = rest == "1"; mock().setData(name, rest == "1"); }
        snprintf(buf, sizeof buf, "bool:%lld", sv); return buf;
    }
    if (kind == "int") { if (!parse_signed(rest, INT_MIN, INT_MAX, sv)) return ""; if (C) mock_c()->setIntData(name, (int) sv); else mock().setData(name, (int) sv); snprintf(buf, sizeof buf, "int:%d", (int) sv); return buf; }
    if (kind == "uint") { if (!parse_unsigned(rest, UINT_MAX, uv)) return ""; if (C) mock_c()->setUnsignedIntData(name, (unsigned int) uv); else mock().setData(name, (unsigned int) uv); snprintf(buf, sizeof buf, "uint:%u", (unsigned int) uv); return buf; }
    if (kind == "dbld") { if (!parse_bits(rest, d)) return ""; if (C) mock_c()->setDoubleData(name, d); else mock().setData(name, d); return "dbld:" + lower(rest); }
    if (kind == "str") {
        const char* sp = 0;
        if (rest != "null") { if (!is_hex(rest)) return ""; st.s = vh::unhex(rest); sp = st.s.c_str(); }
        if (C) mock_c()->setStringData(name, sp); else mock().setData(name, sp);
        return rest == "null" ? std::string("str:null") : "str:" + lower(rest);
    }
    if (kind == "ptr" || kind == "cptr") {
        if (!parse_index(rest, POOL, k)) return "";
        void* vp = k ? (void*) (g_pool + k) : (void*) 0;
        if (kind == "ptr") { if (C) mock_c()->setPointerData(name, vp); else mock().setData(name, vp); }
        else { if (C) mock_c()->setConstPointerData(name, (const void*) vp); else mock().setData(name, (const void*) vp); }
        snprintf(buf, sizeof buf, ":%d", k); return kind + buf;
    }
    if (kind == "fptr") { if (!parse_index(rest, NFN - 1, k)) return ""; if (C) mock_c()->setFunctionPointerData(name, g_fns[k]); else mock().setData(name, g_fns[k]); snprintf(buf, sizeof buf, "fptr:%d", k); return buf; }
    if (kind == "obj" || kind == "cobj") {
        size_t c2 = rest.find(':');
        if (c2 == std::string::npos || c2 == 0) return "";
        std::string type = rest.substr(0, c2);
        if (!valid_type(type) || type == "MockSupport") return "";
        if (!parse_index(rest.substr(c2 + 1), POOL, k)) return "";
        void* vp = k ? (void*) (g_pool + k) : (void*) 0;
        if (kind == "obj") { if (C) mock_c()->setDataObject(name, type.c_str(), vp); else mock().setDataObject(name, type.c_str(), vp); }
        else { if (C) mock_c()->setDataConstObject(name, type.c_str(), (const void*) vp); else mock().setDataConstObject(name, type.c_str(), (const void*) vp); }
        snprintf(buf, sizeof buf, ":%d", k); return kind + ":" + type + buf;
    }
    return "";
}
bool data_token_ok(const std::string& api, const std::string& tok) {      // same acceptance as data_set, without doing anything
    size_t c = tok.find(':');
    if (c == std::string::npos) return false;
    std::string kind = tok.substr(0, c), rest = tok.substr(c + 1);
    long long sv; unsigned long long uv; int k; double d;
    if (kind == "bool") return api == "c" ? parse_signed(rest, INT_MIN, INT_MAX, sv) : (rest == "0" || rest == "1");
    if (kind == "int") return parse_signed(rest, INT_MIN, INT_MAX, sv);
    if (kind == "uint") return parse_unsigned(rest, UINT_MAX, uv);
    if (kind == "dbld") return parse_bits(rest, d);
    if (kind == "str") return rest == "null" || is_hex(rest);
    if (kind == "ptr" || kind == "cptr") return parse_index(rest, POOL, k);
    if (kind == "fptr") return parse_index(rest, NFN - 1, k);
    if (kind == "obj" || kind == "cobj") {
        size_t c2 = rest.find(':');
        if (c2 == std::string::npos || c2 == 0) return false;
        std::string type = rest.substr(0, c2);
        return valid_type(type) && type != "MockSupport" && parse_index(rest.substr(c2 + 1), POOL, k);
    }
    return false;
}

// ---- getret: return value stored on the expectation, read back through every integer reader
ApiVal g_rv; bool g_rv_none = false; int g_rd = 0; int g_reader = 0;
const char* RET_WORDS[6] = { "Int", "UnsignedInt", "LongInt", "UnsignedLongInt", "LongLongInt", "UnsignedLongLongInt" };
std::string reader_name(int idx) {          // idx = level*12 + kind*2 + form
    int level = idx / 12, kind = (idx % 12) / 2, form = idx % 2;
    std::string w = RET_WORDS[kind];
    if (form == 1) return std::string(level ? "support." : "call.") + "return" + w + "ValueOrDefault";
    if (level == 0) return "call.return" + w + "Value";
    std::string lw = w; lw[0] = (char) (lw[0] + 32);
    return "support." + lw + "ReturnValue";
}
void getret_body() {
    g_returned = false;
    mock().clear();
    MockExpectedCall& e = mock().expectOneCall("f");
    if (!g_rv_none) {
        const ApiVal& v = g_rv;
        if (v.kind == "int") e.andReturnValue((int) v.s);
        else if (v.kind == "uint") e.andReturnValue((unsigned int) v.u);
        else if (v.kind == "long") e.andReturnValue((long int) v.s);
        else if (v.kind == "ulong") e.andReturnValue((unsigned long int) v.u);
        else if (v.kind == "llong") e.andReturnValue((cpputest_longlong) v.s);
        else e.andReturnValue((cpputest_ulonglong) v.u);
    }
    MockActualCall& a = mock().actualCall("f");
    int level = g_reader / 12, kind = (g_reader % 12) / 2, form = g_reader % 2;
    long long rs = 0; unsigned long long ru = 0; bool is_signed = (kind % 2 == 0);
    if (level == 0) {
        switch (kind * 2 + form) {
            case 0: rs = a.returnIntValue(); break;
            case 1: rs = a.returnIntValueOrDefault((int) g_rd); break;
            case 2: ru = a.returnUnsignedIntValue(); break;
            case 3: ru = a.returnUnsignedIntValueOrDefault((unsigned int) g_rd); break;
            case 4: rs = a.returnLongIntValue(); break;
            case 5: rs = a.returnLongIntValueOrDefault((long int) g_rd); break;
            case 6: ru = a.returnUnsignedLongIntValue(); break;
            case 7: ru = a.returnUnsignedLongIntValueOrDefault((unsigned long int) g_rd); break;
            case 8: rs = a.returnLongLongIntValue(); break;
            case 9: rs = a.returnLongLongIntValueOrDefault((cpputest_longlong) g_rd); break;
            case 10: ru = a.returnUnsignedLongLongIntValue(); break;
            case 11: ru = a.returnUnsignedLongLongIntValueOrDefault((cpputest_ulonglong) g_rd); break;
        }
    }
    else {
        switch (kind * 2 + form) {
            case 0: rs = mock().intReturnValue(); break;
            case 1: rs = mock().returnIntValueOrDefault((int) g_rd); break;
            case 2: ru = mock().unsignedIntReturnValue(); break;
            case 3: ru = mock().returnUnsignedIntValueOrDefault((unsigned int) g_rd); break;
            case 4: rs = mock().longIntReturnValue(); break;
            case 5: rs = mock().returnLongIntValueOrDefault((long int) g_rd); break;
            case 6: ru = mock().unsignedLongIntReturnValue(); break;
            case 7: ru = mock().returnUnsignedLongIntValueOrDefault((unsigned long int) g_rd); break;
            case 8: rs = mock().longLongIntReturnValue(); break;
            case 9: rs = mock().returnLongLongIntValueOrDefault((cpputest_longlong) g_rd); break;
            case 10: ru = mock().unsignedLongLongIntReturnValue(); break;
            case 11: ru = mock().returnUnsignedLongLongIntValueOrDefault((cpputest_ulonglong) g_rd); break;
        }
    }
    if (is_signed) snprintf(g_result, sizeof g_result, "%lld", rs); else snprintf(g_result, sizeof g_result, "%llu", ru);
    g_returned = true;
}

const char* GETTERS[6] = { "getIntValue", "getUnsignedIntValue", "getLongIntValue", "getUnsignedLongIntValue",
                           "getLongLongIntValue", "getUnsignedLongLongIntValue" };
const char* XGETTERS[13] = { "getBoolValue", "getDoubleValue", "getDoubleTolerance", "getStringValue", "getPointerValue",
                             "getConstPointerValue", "getFunctionPointerValue", "getMemoryBuffer", "getSize",
                             "getObjectPointer", "getConstObjectPointer", "getComparator", "getCopier" };

void run_case(const vh::Case& c) {
    MockNamedValueComparatorsAndCopiersRepository repos[4];
    repos[0].installComparator("CmpMod3", g_cmp1);
    repos[0].installComparator("CmpId", g_cmp2);
    MockNamedValueComparatorsAndCopiersRepository* def = &repos[0];
    MockNamedValue::setDefaultComparatorsAndCopiersRepository(def);
    mock().clear(); mock().removeAllComparatorsAndCopiers();
    MockNamedValue::setDefaultComparatorsAndCopiersRepository(def);
    MockNamedValueList list;
    std::map<MockNamedValue*, unsigned long> seq;
    unsigned long next_seq = 1;
    std::vector<std::unique_ptr<Store> > stores;          // payloads of listed values live as long as the case
    for (size_t i = 0; i < c.ops.size(); i++) {
        const vh::Words& w = c.ops[i];
        if (w[0] == "eq" && w.size() == 3) {
            MockNamedValue a("a"), b("b");
            Store sa, sb;
            std::string ca = build(a, w[1], sa), cb = build(b, w[2], sb);
            if (ca.empty() || cb.empty()) { vh::emit("> skip"); continue; }
            vh::emit("> eq %s %s", ca.c_str(), cb.c_str());
            bool r1 = a.equals(b);
            bool r2 = b.equals(a);
            vh::emit("r %d %d", r1 ? 1 : 0, r2 ? 1 : 0);
        }
        else if (w[0] == "eqapi" && w.size() == 3) {
            if (!parse_apival(w[1], g_ev) || !parse_apival(w[2], g_av)) { vh::emit("> skip"); continue; }
            vh::emit("> eqapi %s %s", g_ev.canon.c_str(), g_av.canon.c_str());
            size_t failures = vh::in_fixture(eqapi_body);
            mock().clear();
            MockNamedValue::setDefaultComparatorsAndCopiersRepository(def);
            vh::emit("p %d", failures == 0 ? 1 : 0);
        }
        else if (w[0] == "eqapix" && w.size() == 3) {
            if (!parse_xval(w[1], true, g_xe) || !parse_xval(w[2], false, g_xa)) { vh::emit("> skip"); continue; }
            vh::emit("> eqapix %s %s", g_xe.canon.c_str(), g_xa.canon.c_str());
            size_t failures = vh::in_fixture(eqapix_body);
            mock().clear();
            MockNamedValue::setDefaultComparatorsAndCopiersRepository(def);
            vh::emit("p %d", failures == 0 ? 1 : 0);
        }
        else if (w[0] == "dset" && w.size() == 4) {
            std::string s1; const char* x = 0;
            if ((w[1] != "cpp" && w[1] != "c") || !name_arg(w[2], s1, x) || x == 0 || !data_token_ok(w[1], w[3])) { vh::emit("> skip"); continue; }
            stores.push_back(std::unique_ptr<Store>(new Store()));
            std::string ca = data_set(w[1], x, w[3], *stores.back());
            MockNamedValue::setDefaultComparatorsAndCopiersRepository(def);
            vh::emit("> dset %s %s %s", w[1].c_str(), lower(w[2]).c_str(), ca.c_str());
        }
        else if (w[0] == "dget" && w.size() == 2) {
            std::string s1; const char* x = 0;
            if (!name_arg(w[1], s1, x) || x == 0) { vh::emit("> skip"); continue; }
            vh::emit("> dget %s", lower(w[1]).c_str());
            {
                MockNamedValue v = mock().getData(x);
                vh::emit("t %s", shex(v.getType()).c_str());
                vh::emit("cmp %d %d", cmp_id(v.getComparator()), cop_id(v.getCopier()));
            }
            g_dname = x;
            for (g_which = 0; g_which < 6; g_which++) {
                g_returned = false;
                size_t failures = vh::in_fixture(dget_body);
                if (failures == 0 && g_returned) vh::emit("%s ok %s", GETTERS[g_which], g_result);
                else if (failures > 0 && !g_returned) vh::emit("%s fail", GETTERS[g_which]);
                else vh::emit("%s inconsistent failures=%lu returned=%d", GETTERS[g_which], (unsigned long) failures, g_returned ? 1 : 0);
            }
            MockNamedValue::setDefaultComparatorsAndCopiersRepository(def);
        }
        else if (w[0] == "deq" && w.size() == 3) {
            std::string s1, s2; const char* x = 0; const char* y = 0;
            if (!name_arg(w[1], s1, x) || x == 0 || !name_arg(w[2], s2, y) || y == 0) { vh::emit("> skip"); continue; }
            vh::emit("> deq %s %s", lower(w[1]).c_str(), lower(w[2]).c_str());
            MockNamedValue a = mock().getData(x), b = mock().getData(y);
            bool r1 = a.equals(b), r2 = b.equals(a);
            vh::emit("r %d %d", r1 ? 1 : 0, r2 ? 1 : 0);
            MockNamedValue::setDefaultComparatorsAndCopiersRepository(def);
        }
        else if (w[0] == "dhas" && w.size() == 2) {
            std::string s1; const char* x = 0;
            if (!name_arg(w[1], s1, x) || x == 0) { vh::emit("> skip"); continue; }
            vh::emit("> dhas %s", lower(w[1]).c_str());
            vh::emit("has %d", mock().hasData(x) ? 1 : 0);
            MockNamedValue::setDefaultComparatorsAndCopiersRepository(def);
        }
        else if ((w[0] == "dinstall" || w[0] == "dcopier") && w.size() == 3) {
            int id;
            if (!valid_type(w[1]) || !parse_index(w[2], w[0] == "dinstall" ? 4 : 2, id) || id == 0) { vh::emit("> skip"); continue; }
            vh::emit("> %s %s %d", w[0].c_str(), w[1].c_str(), id);
            if (w[0] == "dinstall") mock().installComparator(w[1].c_str(), *g_cmps[id]); else mock().installCopier(w[1].c_str(), *g_cops[id]);
            MockNamedValue::setDefaultComparatorsAndCopiersRepository(def);
        }
        else if (w[0] == "dremove" && w.size() == 1) {
            vh::emit("> dremove"); mock().removeAllComparatorsAndCopiers();
            MockNamedValue::setDefaultComparatorsAndCopiersRepository(def);
        }
        else if (w[0] == "dclear" && w.size() == 1) {
            vh::emit("> dclear"); mock().clear();
            MockNamedValue::setDefaultComparatorsAndCopiersRepository(def);
        }
        else if (w[0] == "cell" && w.size() >= 2 && w.size() <= 12) {
            // value tokens and `def:<r|none>` (switches the default repository before the next setter; it stays switched)
            MockNamedValue v("cell"), f("fresh");
            std::vector<std::unique_ptr<Store> > sts;
            std::string canon; bool ok = true; int r;
            std::string last;
            { MockNamedValue probe("probe");
              for (size_t j = 1; j < w.size() && ok; j++) {
                  if (w[j].compare(0, 4, "def:") == 0) { if (!(w[j] == "def:none" || parse_index(w[j].substr(4), 3, r))) ok = false; continue; }
                  Store t; if (build(probe, w[j], t).empty()) ok = false; else last = w[j];
              } }
            if (!ok || last.empty() || w[w.size() - 1].compare(0, 4, "def:") == 0) { MockNamedValue::setDefaultComparatorsAndCopiersRepository(def); vh::emit("> skip"); continue; }
            for (size_t j = 1; j < w.size(); j++) {
                if (w[j].compare(0, 4, "def:") == 0) {
                    if (w[j] == "def:none") { def = 0; canon += " def:none"; }
                    else { parse_index(w[j].substr(4), 3, r); def = &repos[r]; char b[16]; snprintf(b, sizeof b, " def:%d", r); canon += b; }
                    MockNamedValue::setDefaultComparatorsAndCopiersRepository(def);
                    continue;
                }
                sts.push_back(std::unique_ptr<Store>(new Store()));
                canon += " " + build(v, w[j], *sts.back());
            }
            Store sf; build(f, last, sf);
            vh::emit("> cell%s", canon.c_str());
            vh::emit("t %s", shex(v.getType()).c_str());
            vh::emit("size %lu", (unsigned long) v.getSize());
            vh::emit("cmp %d %d", cmp_id(v.getComparator()), cop_id(v.getCopier()));
            bool r1 = v.equals(f), r2 = f.equals(v);
            vh::emit("r %d %d", r1 ? 1 : 0, r2 ? 1 : 0);
        }
        else if (w[0] == "getret" && w.size() == 3) {
            g_rv_none = (w[1] == "none");
            if (!g_rv_none && !parse_apival("ovl." + w[1], g_rv)) { vh::emit("> skip"); continue; }
            if (!parse_index(w[2], 100, g_rd)) { vh::emit("> skip"); continue; }
            vh::emit("> getret %s %d", g_rv_none ? "none" : g_rv.canon.substr(4).c_str(), g_rd);
            for (g_reader = 0; g_reader < 24; g_reader++) {
                g_returned = false;
                size_t failures = vh::in_fixture(getret_body);
                mock().clear();
                MockNamedValue::setDefaultComparatorsAndCopiersRepository(def);
                std::string rn = reader_name(g_reader);
                if (failures == 0 && g_returned) vh::emit("%s ok %s", rn.c_str(), g_result);
                else if (failures > 0 && !g_returned) vh::emit("%s fail", rn.c_str());
                else vh::emit("%s inconsistent failures=%lu returned=%d", rn.c_str(), (unsigned long) failures, g_returned ? 1 : 0);
            }
        }
        else if (w[0] == "compat" && w.size() == 3) {
            MockNamedValue a("a"), b("b");
            Store sa, sb;
            std::string ca = build(a, w[1], sa), cb = build(b, w[2], sb);
            if (ca.empty() || cb.empty()) { vh::emit("> skip"); continue; }
            vh::emit("> compat %s %s", ca.c_str(), cb.c_str());
            vh::emit("c %d %d", a.compatibleForCopying(b) ? 1 : 0, b.compatibleForCopying(a) ? 1 : 0);
        }
        else if (w[0] == "tostr" && w.size() == 2) {
            MockNamedValue a("a"); Store sa;
            std::string ca = build(a, w[1], sa);
            if (ca.empty()) { vh::emit("> skip"); continue; }
            vh::emit("> tostr %s", ca.c_str());
            // environment inputs, computed from the token (not through the code under test)
            std::string k = kind_of(ca);
            std::vector<std::string> f; { std::string cur; for (size_t j = 0; j <= ca.size(); j++) { if (j == ca.size() || ca[j] == ':') { f.push_back(cur); cur.clear(); } else cur.push_back(ca[j]); } }
            if ((k == "dbl" || k == "dbld") && f.size() >= 2) {
                double d = 0; parse_bits(f[1], d);
                if (d == d && d <= 1.7976931348623157e308 && d >= -1.7976931348623157e308) {
                    char buf[64]; int n = snprintf(buf, sizeof buf, "%.*g", 6, d);
                    vh::emit("g6 %s", vh::hex(buf, (size_t) n).c_str());
                }
            }
            else if ((k == "ptr" || k == "cptr") && f.size() == 2) { int x = atoi(f[1].c_str()); vh::emit("addr %llu", (unsigned long long) (x ? g_pool + x : 0)); }
            else if (k == "fptr" && f.size() == 2) { int x = atoi(f[1].c_str()); vh::emit("addr %llu", (unsigned long long) g_fns[x]); }
            else if ((k == "obj" || k == "cobj") && f.size() == 3) { int x = atoi(f[2].c_str()); vh::emit("addr %llu", (unsigned long long) (x ? g_pool + x : 0)); }
            vh::emit("t %s", shex(a.getType()).c_str());
            vh::emit("s %s", shex(a.toString()).c_str());
        }
        else if (w[0] == "name" && w.size() == 3) {
            std::string s1, s2; const char* x = 0; const char* y = 0;
            if (!name_arg(w[1], s1, x) || !name_arg(w[2], s2, y)) { vh::emit("> skip"); continue; }
            vh::emit("> name %s %s", w[1] == "null" ? "null" : lower(w[1]).c_str(), w[2] == "null" ? "null" : lower(w[2]).c_str());
            MockNamedValue v((SimpleString(x)));
            vh::emit("n0 %s", shex(v.getName()).c_str());
            vh::emit("t0 %s", shex(v.getType()).c_str());
            vh::emit("s0 %s", shex(v.toString()).c_str());
            v.setName(y);
            vh::emit("n1 %s", shex(v.getName()).c_str());
        }
        else if (w[0] == "get" && w.size() == 2) {
            std::string ca;
            { MockNamedValue a("a"); Store sa; ca = build(a, w[1], sa); }
            if (ca.empty()) { vh::emit("> skip"); continue; }
            vh::emit("> get %s", ca.c_str());
            g_tok = &w[1];
            for (g_which = 0; g_which < 6; g_which++) {
                g_returned = false;
                size_t failures = vh::in_fixture(getter_body);
                MockNamedValue::setDefaultComparatorsAndCopiersRepository(def);
                if (failures == 0 && g_returned) vh::emit("%s ok %s", GETTERS[g_which], g_result);
                else if (failures > 0 && !g_returned) vh::emit("%s fail", GETTERS[g_which]);
                else vh::emit("%s inconsistent failures=%lu returned=%d", GETTERS[g_which], (unsigned long) failures, g_returned ? 1 : 0);
            }
        }
        else if (w[0] == "getx" && w.size() == 2) {
            std::string ca;
            { MockNamedValue a("a"); Store sa; ca = build(a, w[1], sa); }
            if (ca.empty()) { vh::emit("> skip"); continue; }
            vh::emit("> getx %s", ca.c_str());
            g_tok = &w[1];
            std::string k = kind_of(ca);
            bool isobj = (k == "obj" || k == "cobj");
            for (int x = 0; x < 13; x++) {
                // the untyped object getters read the union without a type test: meaningful for object values only
                if (x >= 9 && x <= 10 && !isobj) continue;
                g_which = 10 + x;
                g_returned = false;
                size_t failures = vh::in_fixture(getter_body);
                MockNamedValue::setDefaultComparatorsAndCopiersRepository(def);
                if (failures == 0 && g_returned) vh::emit("%s ok %s", XGETTERS[x], g_xresult.c_str());
                else if (failures > 0 && !g_returned) vh::emit("%s fail", XGETTERS[x]);
                else vh::emit("%s inconsistent failures=%lu returned=%d", XGETTERS[x], (unsigned long) failures, g_returned ? 1 : 0);
            }
        }
        else if (w[0] == "ladd" && w.size() == 3) {
            std::string s1; const char* x = 0;
            if (!name_arg(w[1], s1, x) || x == 0) { vh::emit("> skip"); continue; }
            stores.push_back(std::unique_ptr<Store>(new Store()));
            MockNamedValue* v = new MockNamedValue(SimpleString(x));
            std::string ca = build(*v, w[2], *stores.back());
            if (ca.empty()) { delete v; vh::emit("> skip"); continue; }
            vh::emit("> ladd %s %s", lower(w[1]).c_str(), ca.c_str());
            seq[v] = next_seq++;
            list.add(v);
            vh::emit("added %lu", seq[v]);
        }
        else if (w[0] == "lget" && w.size() == 2) {
            std::string s1; const char* x = 0;
            if (!name_arg(w[1], s1, x) || x == 0) { vh::emit("> skip"); continue; }
            vh::emit("> lget %s", lower(w[1]).c_str());
            MockNamedValue* v = list.getValueByName(x);
            if (v) vh::emit("item %lu", seq.count(v) ? seq[v] : 0UL); else vh::emit("item none");
        }
        else if (w[0] == "llist" && w.size() == 1) {
            vh::emit("> llist");
            for (MockNamedValueListNode* p = list.begin(); p; p = p->next())
                vh::emit("it %lu %s %s", seq.count(p->item()) ? seq[p->item()] : 0UL, shex(p->getName()).c_str(), shex(p->getType()).c_str());
        }
        else if (w[0] == "lclear" && w.size() == 1) { vh::emit("> lclear"); list.clear(); seq.clear(); }
        else if ((w[0] == "rcmp" || w[0] == "rcop") && w.size() == 4) {
            int r, id;
            if (!parse_index(w[1], 3, r) || !valid_type(w[2]) || !parse_index(w[3], w[0] == "rcmp" ? 4 : 2, id) || id == 0) { vh::emit("> skip"); continue; }
            vh::emit("> %s %d %s %d", w[0].c_str(), r, w[2].c_str(), id);
            if (w[0] == "rcmp") repos[r].installComparator(w[2].c_str(), *g_cmps[id]);
            else repos[r].installCopier(w[2].c_str(), *g_cops[id]);
        }
        else if (w[0] == "rget" && w.size() == 3) {
            int r;
            if (!parse_index(w[1], 3, r) || !valid_type(w[2])) { vh::emit("> skip"); continue; }
            vh::emit("> rget %d %s", r, w[2].c_str());
            vh::emit("got %d %d", cmp_id(repos[r].getComparatorForType(w[2].c_str())), cop_id(repos[r].getCopierForType(w[2].c_str())));
        }
        else if (w[0] == "rimport" && w.size() == 3) {
            int r, r2;
            if (!parse_index(w[1], 3, r) || !parse_index(w[2], 3, r2)) { vh::emit("> skip"); continue; }
            vh::emit("> rimport %d %d", r, r2);
            repos[r].installComparatorsAndCopiers(repos[r2]);
        }
        else if (w[0] == "rclear" && w.size() == 2) {
            int r;
            if (!parse_index(w[1], 3, r)) { vh::emit("> skip"); continue; }
            vh::emit("> rclear %d", r);
            repos[r].clear();
        }
        else if (w[0] == "rdefault" && w.size() == 2) {
            int r;
            if (w[1] == "none") { vh::emit("> rdefault none"); def = 0; }
            else if (parse_index(w[1], 3, r)) { vh::emit("> rdefault %d", r); def = &repos[r]; }
            else { vh::emit("> skip"); continue; }
            MockNamedValue::setDefaultComparatorsAndCopiersRepository(def);
        }
        else vh::emit("> skip");
    }
    list.clear();
    mock().clear(); mock().removeAllComparatorsAndCopiers();
    MockNamedValue::setDefaultComparatorsAndCopiersRepository(0);
}

} // namespace

int main() { return vh::run_all(run_case); }
