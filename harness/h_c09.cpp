// C09 correspondence harness: builds real MockNamedValue objects from value tokens, calls the real
// MockNamedValue::equals in both directions and every integer getter inside a real test (fixture.h).
//
// ops:   eq <A> <B>        -> "r <a.equals(b)> <b.equals(a)>"
//        get <A>           -> one line per getter: "<getter> ok <decimal>" | "<getter> fail"
// value tokens (one word):
//        int:<n> uint:<n> long:<n> ulong:<n> llong:<n> ullong:<n>     decimal or 0x hex, must fit the type
//        bool:<0|1>   dbl:<16 hex: value bits>:<16 hex: tolerance bits>
//        str:<hex bytes|-|null>   mem:<hex bytes|->
//        ptr:<k> cptr:<k> fptr:<k>            k = index into a fixed pool, 0 = NULL
//        obj:<Type>:<k> cobj:<Type>:<k>       setObjectPointer / setConstObjectPointer; comparators are
//                                            installed for the types CmpMod3 (k%3 equal) and CmpId (k equal)
// The echoed op is canonical (integers re-printed from the stored C value).
#include "fixture.h"
#include "CppUTestExt/MockNamedValue.h"
#include <cerrno>
#include <climits>
#include <cstdint>

#undef new

namespace {

const int POOL = 16;
char g_pool[POOL + 1];
void f0() {} void f1() {} void f2() {} void f3() {} void f4() {} void f5() {} void f6() {} void f7() {}
typedef void (*Fn)();
Fn g_fns[] = { 0, f0, f1, f2, f3, f4, f5, f6, f7 };
const int NFN = (int) (sizeof(g_fns) / sizeof(g_fns[0]));

int pool_index(const void* p) { return p ? (int) ((const char*) p - g_pool) : 0; }

struct Mod3Comparator : public MockNamedValueComparator {
    bool isEqual(const void* a, const void* b) CPPUTEST_OVERRIDE { return pool_index(a) % 3 == pool_index(b) % 3; }
    SimpleString valueToString(const void* a) CPPUTEST_OVERRIDE { return StringFrom(pool_index(a)); }
};
struct IdComparator : public MockNamedValueComparator {
    bool isEqual(const void* a, const void* b) CPPUTEST_OVERRIDE { return a == b; }
    SimpleString valueToString(const void* a) CPPUTEST_OVERRIDE { return StringFrom(pool_index(a)); }
};

bool is_hex(const std::string& h) {
    if (h == "-") return true;
    if (h.size() % 2) return false;
    for (size_t i = 0; i < h.size(); i++) if (vh::hexval(h[i]) < 0) return false;
    return !h.empty();
}

bool parse_signed(const std::string& s, long long lo, long long hi, long long& out) {
    if (s.empty() || s.size() > 40) return false;
    errno = 0; char* end = 0;
    long long v = strtoll(s.c_str(), &end, 0);
    if (errno || !end || *end || end == s.c_str()) return false;
    if (v < lo || v > hi) return false;
    out = v; return true;
}
bool parse_unsigned(const std::string& s, unsigned long long hi, unsigned long long& out) {
    if (s.empty() || s.size() > 40 || s[0] == '-' || s[0] == '+') return false;
    errno = 0; char* end = 0;
    unsigned long long v = strtoull(s.c_str(), &end, 0);
    if (errno || !end || *end || end == s.c_str()) return false;
    if (v > hi) return false;
    out = v; return true;
}
bool parse_index(const std::string& s, int limit, int& out) {
    unsigned long long v;
    if (!parse_unsigned(s, (unsigned long long) limit, v)) return false;
    out = (int) v; return true;
}
bool parse_bits(const std::string& h, double& d) {
    if (h.size() != 16) return false;
    uint64_t u = 0;
    for (size_t i = 0; i < 16; i++) { int x = vh::hexval(h[i]); if (x < 0) return false; u = (u << 4) | (uint64_t) x; }
    memcpy(&d, &u, 8); return true;
}
std::string lower(std::string s) { for (size_t i = 0; i < s.size(); i++) if (s[i] >= 'A' && s[i] <= 'F') s[i] = (char) (s[i] + 32); return s; }

// storage that must outlive the MockNamedValue (strings and buffers are held by pointer)
struct Store { std::string s; std::vector<unsigned char> m; };

// builds `v` from `tok`; returns the canonical token or "" when the token is not valid
std::string build(MockNamedValue& v, const std::string& tok, Store& st) {
    size_t c = tok.find(':');
    if (c == std::string::npos) return "";
    std::string kind = tok.substr(0, c), rest = tok.substr(c + 1);
    char buf[96];
    long long sv; unsigned long long uv; int k;
    if (kind == "int") { if (!parse_signed(rest, INT_MIN, INT_MAX, sv)) return ""; v.setValue((int) sv); snprintf(buf, sizeof buf, "int:%d", (int) sv); return buf; }
    if (kind == "uint") { if (!parse_unsigned(rest, UINT_MAX, uv)) return ""; v.setValue((unsigned int) uv); snprintf(buf, sizeof buf, "uint:%u", (unsigned int) uv); return buf; }
    if (kind == "long") { if (!parse_signed(rest, LONG_MIN, LONG_MAX, sv)) return ""; v.setValue((long int) sv); snprintf(buf, sizeof buf, "long:%ld", (long int) sv); return buf; }
    if (kind == "ulong") { if (!parse_unsigned(rest, ULONG_MAX, uv)) return ""; v.setValue((unsigned long int) uv); snprintf(buf, sizeof buf, "ulong:%lu", (unsigned long int) uv); return buf; }
    if (kind == "llong") { if (!parse_signed(rest, LLONG_MIN, LLONG_MAX, sv)) return ""; v.setValue((cpputest_longlong) sv); snprintf(buf, sizeof buf, "llong:%lld", (long long) sv); return buf; }
    if (kind == "ullong") { if (!parse_unsigned(rest, ULLONG_MAX, uv)) return ""; v.setValue((cpputest_ulonglong) uv); snprintf(buf, sizeof buf, "ullong:%llu", (unsigned long long) uv); return buf; }
    if (kind == "bool") { if (rest != "0" && rest != "1") return ""; v.setValue(rest == "1"); return "bool:" + rest; }
    if (kind == "dbl") {
        size_t c2 = rest.find(':');
        if (c2 == std::string::npos) return "";
        double d, t;
        if (!parse_bits(rest.substr(0, c2), d) || !parse_bits(rest.substr(c2 + 1), t)) return "";
        v.setValue(d, t);
        return "dbl:" + lower(rest);
    }
    if (kind == "str") {
        if (rest == "null") { v.setValue((const char*) 0); return "str:null"; }
        if (!is_hex(rest)) return "";
        st.s = vh::unhex(rest);
        v.setValue(st.s.c_str());
        return "str:" + lower(rest);
    }
    if (kind == "mem") {
        if (!is_hex(rest)) return "";
        std::string b = vh::unhex(rest);
        st.m.assign(b.begin(), b.end());
        st.m.push_back(0xEE);            // data() stays non-NULL for size 0; the extra byte is never part of the buffer
        v.setMemoryBuffer(&st.m[0], b.size());
        return "mem:" + lower(rest);
    }
    if (kind == "ptr") { if (!parse_index(rest, POOL, k)) return ""; v.setValue((void*) (k ? g_pool + k : 0)); snprintf(buf, sizeof buf, "ptr:%d", k); return buf; }
    if (kind == "cptr") { if (!parse_index(rest, POOL, k)) return ""; v.setValue((const void*) (k ? g_pool + k : 0)); snprintf(buf, sizeof buf, "cptr:%d", k); return buf; }
    if (kind == "fptr") { if (!parse_index(rest, NFN - 1, k)) return ""; v.setValue(g_fns[k]); snprintf(buf, sizeof buf, "fptr:%d", k); return buf; }
    if (kind == "obj" || kind == "cobj") {
        size_t c2 = rest.find(':');
        if (c2 == std::string::npos || c2 == 0) return "";
        std::string type = rest.substr(0, c2);
        for (size_t i = 0; i < type.size(); i++) if (!isalnum((unsigned char) type[i])) return "";
        // a custom type named like a built-in one makes equals/getters read an inactive union member:
        // outside the property's quantifier (ASSUMPTIONS: Mock.WF)
        if (type == "int" || type == "bool" || type == "double") return "";
        if (!parse_index(rest.substr(c2 + 1), POOL, k)) return "";
        if (kind == "obj") v.setObjectPointer(type.c_str(), (void*) (k ? g_pool + k : 0));
        else v.setConstObjectPointer(type.c_str(), (const void*) (k ? g_pool + k : 0));
        snprintf(buf, sizeof buf, ":%d", k);
        return kind + ":" + type + buf;
    }
    return "";
}

// ---- getters, each inside a real test
const std::string* g_tok = 0;
int g_which = 0;
bool g_returned = false;
char g_result[64];

void getter_body() {
    MockNamedValue v("g");
    Store st;
    build(v, *g_tok, st);
    g_returned = false;
    switch (g_which) {
        case 0: { int r = v.getIntValue(); snprintf(g_result, sizeof g_result, "%d", r); break; }
        case 1: { unsigned int r = v.getUnsignedIntValue(); snprintf(g_result, sizeof g_result, "%u", r); break; }
        case 2: { long int r = v.getLongIntValue(); snprintf(g_result, sizeof g_result, "%ld", r); break; }
        case 3: { unsigned long int r = v.getUnsignedLongIntValue(); snprintf(g_result, sizeof g_result, "%lu", r); break; }
        case 4: { cpputest_longlong r = v.getLongLongIntValue(); snprintf(g_result, sizeof g_result, "%lld", (long long) r); break; }
        case 5: { cpputest_ulonglong r = v.getUnsignedLongLongIntValue(); snprintf(g_result, sizeof g_result, "%llu", (unsigned long long) r); break; }
    }
    g_returned = true;
}

const char* GETTERS[6] = { "getIntValue", "getUnsignedIntValue", "getLongIntValue", "getUnsignedLongIntValue",
                           "getLongLongIntValue", "getUnsignedLongLongIntValue" };

void run_case(const vh::Case& c) {
    MockNamedValueComparatorsAndCopiersRepository repo;
    Mod3Comparator mod3; IdComparator idc;
    repo.installComparator("CmpMod3", mod3);
    repo.installComparator("CmpId", idc);
    MockNamedValue::setDefaultComparatorsAndCopiersRepository(&repo);
    for (size_t i = 0; i < c.ops.size(); i++) {
        const vh::Words& w = c.ops[i];
        if (w[0] == "eq" && w.size() == 3) {
            MockNamedValue a("a"), b("b");
            Store sa, sb;
            std::string ca = build(a, w[1], sa), cb = build(b, w[2], sb);
            if (ca.empty() || cb.empty()) { vh::emit("> skip"); continue; }
            vh::emit("> eq %s %s", ca.c_str(), cb.c_str());
            bool r1 = a.equals(b);
            bool r2 = b.equals(a);
            vh::emit("r %d %d", r1 ? 1 : 0, r2 ? 1 : 0);
        }
        else if (w[0] == "get" && w.size() == 2) {
            std::string ca;
            { MockNamedValue a("a"); Store sa; ca = build(a, w[1], sa); }
            if (ca.empty()) { vh::emit("> skip"); continue; }
            vh::emit("> get %s", ca.c_str());
            g_tok = &w[1];
            for (g_which = 0; g_which < 6; g_which++) {
                g_returned = false;
                size_t failures = vh::in_fixture(getter_body);
                MockNamedValue::setDefaultComparatorsAndCopiersRepository(&repo);
                if (failures == 0 && g_returned) vh::emit("%s ok %s", GETTERS[g_which], g_result);
                else if (failures > 0 && !g_returned) vh::emit("%s fail", GETTERS[g_which]);
                else vh::emit("%s inconsistent failures=%lu returned=%d", GETTERS[g_which], (unsigned long) failures, g_returned ? 1 : 0);
            }
        }
        else vh::emit("> skip");
    }
    MockNamedValue::setDefaultComparatorsAndCopiersRepository(0);
}

} // namespace

int main() { return vh::run_all(run_case); }
