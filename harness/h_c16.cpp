// C16 correspondence harness: a scripted registry (h_c16_util.h) is run by the real TestRegistry with
// the real JUnitTestOutput; the file seams PlatformSpecificFOpen/FPuts/FClose are replaced by
// in-memory files.  Observations at `run`:
//   timestamp <hex>                     the (stubbed) GetPlatformSpecificTimeString(), an environment input
//   file <hex name> <hex content>       one line per closed file, in the order they were closed
//   unclosed <hex name>                 a file that was opened but never closed
// Real-I/O sub-mode (`realio` before `run`): the three file function pointers stay at the platform's real
// implementations (src/Platforms/Gcc/UtestPlatform.cpp: fopen / fputs / fclose); the run happens in a fresh
// temporary directory, the cpputest_*.xml files are read back from disk and reported exactly like the
// in-memory ones, in group order (the generator keeps the file names of such a run distinct);
//   missing <hex name>                  a report that should be on disk is not
//   file lines for anything else found in the directory follow, sorted by name.
// Command-line sub-mode (`cli` before `run`): the registry is run by the real CommandLineTestRunner::runAllTestsMain with
//   argv = -ojunit [-k package] [-r<n>] [-v | -vv] [-n | -sn | -xn | -xsn  pattern]
// (joined and separate spellings both used), i.e. through CommandLineArguments, createJUnitOutput/setPackageName, with -v / -vv
// the CompositeTestOutput in front of the JUnit output and a ConsoleTestOutput (whose text goes to the stdout seam and is
// dropped here), the runner's own repeat loop, and the destruction of the output object by the runner.
//   cli-exit <n>                        what runAllTestsMain returned (failed test count, or failed runs)
// `timestr <hex>` sets what the stubbed GetPlatformSpecificTimeString returns (an environment input; reported as `timestamp`).
// `realtime` leaves GetPlatformSpecificTimeString at the platform's implementation (src/Platforms/Gcc/UtestPlatform.cpp: time,
// localtime, strftime); the `timestamp` line then reports what the first written file carries (the file lines follow it).
#include "h_c16_util.h"
#include "CppUTest/JUnitTestOutput.h"
#include "CppUTest/CommandLineTestRunner.h"
#include <dirent.h>
#include <sys/stat.h>

namespace {

struct MemFile { std::string name, content; bool open; };
std::vector<MemFile*> g_files;
bool g_defer = false;                  // `realtime`: the file lines wait until the time string is known
std::vector<MemFile*> g_deferred;

PlatformSpecificFile mem_fopen(const char* filename, const char* flag) {
    MemFile* f = new MemFile();
    f->name = filename; f->open = true;
    if (std::string(flag) != "w") f->name += std::string(" [flag ") + flag + "]";
    g_files.push_back(f);
    return (PlatformSpecificFile) f;
}
MemFile* lookup(PlatformSpecificFile file) {
    for (size_t i = 0; i < g_files.size(); i++) if ((PlatformSpecificFile) g_files[i] == file) return g_files[i];
    return 0;
}
void mem_fputs(const char* s, PlatformSpecificFile file) {
    MemFile* f = lookup(file);
    if (f && f->open) f->content += s;
    else if (f) vh::emit("write-after-close %s", vh::hex(f->name).c_str());
}
void mem_fclose(PlatformSpecificFile file) {
    MemFile* f = lookup(file);
    if (!f) return;
    if (!f->open) { vh::emit("double-close %s", vh::hex(f->name).c_str()); return; }
    f->open = false;
    if (g_defer) { g_deferred.push_back(f); return; }
    vh::emit("file %s %s", vh::hex(f->name).c_str(), vh::hex(f->content).c_str());
}
void no_flush() {}

PlatformSpecificFile (*g_real_fopen)(const char*, const char*) = 0;
void (*g_real_fputs)(const char*, PlatformSpecificFile) = 0;
void (*g_real_fclose)(PlatformSpecificFile) = 0;

bool read_file(const std::string& path, std::string& out) {
    FILE* f = fopen(path.c_str(), "rb");
    if (!f) return false;
    char buf[65536]; size_t n;
    out.clear();
    while ((n = fread(buf, 1, sizeof buf, f)) > 0) out.append(buf, n);
    fclose(f);
    return true;
}

// the report names in the order the groups end (the name a group's report gets: JUnitTestOutput::createFileName of the
// group, or of "" when none of its tests runs)
std::vector<std::string> expected_names(const vo::Registry& reg, JUnitTestOutput& out) {
    std::vector<std::string> names;
    TestFilter filter(reg.filter.c_str());
    if (reg.strict) filter.strictMatching();
    if (reg.invert) filter.invertMatching();
    size_t i = 0;
    while (i < reg.scripts.size()) {
        size_t j = i; bool any = false;
        while (j < reg.scripts.size() && reg.scripts[j].group == reg.scripts[i].group) {
            if (!reg.has_filter || filter.match(SimpleString(reg.scripts[j].name.c_str()))) any = true;
            j++;
        }
        names.push_back(out.createFileName(SimpleString(any ? reg.scripts[i].group.c_str() : "")).asCharString());
        i = j;
    }
    return names;
}

void run_real_io(const vo::Registry& reg) {
    char tmpl[] = "/tmp/h_c16_XXXXXX";
    char* dir = mkdtemp(tmpl);
    if (!dir || chdir(dir) != 0) { vh::emit("crash cannot-create-temporary-directory"); return; }
    std::vector<std::string> names;
    {
        JUnitTestOutput out;
        out.setPackageName(SimpleString(reg.package.c_str()));
        names = expected_names(reg, out);
    }
    // the run itself happens in a process of its own, so that the directory is removed even when the run dies
    fflush(stdout); fflush(stderr);
    pid_t pid = fork();
    if (pid == 0) {
        alarm(30);
        PlatformSpecificFOpen = g_real_fopen;
        PlatformSpecificFPuts = g_real_fputs;
        PlatformSpecificFClose = g_real_fclose;
        {
            JUnitTestOutput out;
            out.setPackageName(SimpleString(reg.package.c_str()));
            vo::run_registry(reg, out);
        }
        fflush(stdout); fflush(stderr);
        _exit(0);
    }
    int st = 0;
    while (waitpid(pid, &st, 0) < 0 && errno == EINTR) { }
    std::set<std::string> seen;
    for (size_t k = 0; k < names.size(); k++) {
        std::string content;
        if (read_file(names[k], content)) vh::emit("file %s %s", vh::hex(names[k]).c_str(), vh::hex(content).c_str());
        else vh::emit("missing %s", vh::hex(names[k]).c_str());
        seen.insert(names[k]);
    }
    std::vector<std::string> others;
    if (DIR* d = opendir(".")) {
        while (struct dirent* e = readdir(d)) {
            std::string n = e->d_name;
            if (n == "." || n == "..") continue;
            if (!seen.count(n)) others.push_back(n);
            else unlink(n.c_str());
        }
        closedir(d);
    }
    std::sort(others.begin(), others.end());
    for (size_t k = 0; k < others.size(); k++) {
        std::string content;
        read_file(others[k], content);
        vh::emit("file %s %s", vh::hex(others[k]).c_str(), vh::hex(content).c_str());
        unlink(others[k].c_str());
    }
    if (chdir("/") != 0) {}
    rmdir(dir);
    if (WIFSIGNALED(st)) vh::emit("crash realio-child signal %d", WTERMSIG(st));
    else if (WIFEXITED(st) && WEXITSTATUS(st) != 0)
        vh::emit("crash realio-child %s", WEXITSTATUS(st) == 77 ? "asan" : WEXITSTATUS(st) == 78 ? "ubsan" : "exit");
}

int run_cli(const vo::Registry& reg) {
    vo::stub_clock();
    vo::Built b(reg);
    std::vector<std::string> args;
    args.push_back("h_c16");
    if (reg.verbosity == 1) args.push_back("-v");
    args.push_back("-ojunit");
    if (!reg.package.empty()) {
        if (reg.package.size() % 2) args.push_back("-k" + reg.package);
        else { args.push_back("-k"); args.push_back(reg.package); }
    }
    if (reg.repeat > 1 || reg.scripts.size() % 2) {
        char n[8]; snprintf(n, sizeof n, "%d", reg.repeat);
        if (reg.scripts.size() % 3 == 0) { args.push_back("-r"); args.push_back(n); }
        else args.push_back(std::string("-r") + n);
    }
    if (reg.has_filter) {
        std::string flag = reg.invert ? (reg.strict ? "-xsn" : "-xn") : (reg.strict ? "-sn" : "-n");
        if (!reg.filter.empty() && reg.filter.size() % 2) args.push_back(flag + reg.filter);
        else { args.push_back(flag); args.push_back(reg.filter); }
    }
    if (reg.verbosity == 2) args.push_back("-vv");
    std::vector<const char*> av;
    for (size_t i = 0; i < args.size(); i++) av.push_back(args[i].c_str());
    int rc;
    {
        CommandLineTestRunner runner((int) av.size(), &av[0], &b.reg);
        rc = runner.runAllTestsMain();
    }
    return rc;
}

std::string g_time_text;

void run_case(const vh::Case& c) {
    vo::Registry reg;
    bool cli = false;
    if (!g_real_fopen) { g_real_fopen = PlatformSpecificFOpen; g_real_fputs = PlatformSpecificFPuts; g_real_fclose = PlatformSpecificFClose; }
    PlatformSpecificFOpen = mem_fopen;
    PlatformSpecificFPuts = mem_fputs;
    PlatformSpecificFClose = mem_fclose;
    PlatformSpecificFlush = no_flush;
    for (size_t i = 0; i < c.ops.size(); i++) {
        const vh::Words& w = c.ops[i];
        if (w[0] == "run" && w.size() == 1) {
            vh::emit_op("run");
            bool realtime = vo::g_real_time_string && !reg.realio;
            if (reg.realio) vo::g_real_time_string = false;
            if (!realtime) vh::emit("timestamp %s", vh::hex(std::string(vo::fake_time_string())).c_str());
            if (reg.realio) { run_real_io(reg); continue; }
            g_defer = realtime; g_deferred.clear();
            size_t first = g_files.size();
            int rc = 0;
            if (cli) rc = run_cli(reg);
            else {
                JUnitTestOutput out;
                out.setPackageName(SimpleString(reg.package.c_str()));
                vo::run_registry(reg, out);
            }
            if (realtime) {
                std::string ts = vo::g_platform_time_string ? vo::g_platform_time_string() : "";
                if (!g_deferred.empty()) {
                    const std::string& body = g_deferred[0]->content;
                    size_t a = body.find("timestamp=\"");
                    if (a != std::string::npos) {
                        size_t b = body.find('"', a + 11);
                        ts = body.substr(a + 11, b == std::string::npos ? std::string::npos : b - a - 11);
                    }
                }
                vh::emit("timestamp %s", vh::hex(ts).c_str());
                for (size_t k = 0; k < g_deferred.size(); k++)
                    vh::emit("file %s %s", vh::hex(g_deferred[k]->name).c_str(), vh::hex(g_deferred[k]->content).c_str());
                g_defer = false;
                vo::g_real_time_string = false;        // applies to one run only
            }
            if (cli) vh::emit("cli-exit %d", rc);
            for (size_t k = first; k < g_files.size(); k++)
                if (g_files[k]->open) vh::emit("unclosed %s", vh::hex(g_files[k]->name).c_str());
        }
        else if (w[0] == "cli" && w.size() == 1) { cli = true; vh::emit_op("cli"); }
        else if (w[0] == "realtime" && w.size() == 1) { vo::g_real_time_string = true; vh::emit_op("realtime"); }
        else if (w[0] == "timestr" && w.size() == 2 && vo::is_hex(w[1])) {
            g_time_text = vh::unhex(w[1]); vo::g_time_string = g_time_text.c_str(); vh::emit_op(vo::join(w));
        }
        else if (vo::apply_op(reg, w)) vh::emit_op(vo::join(w));
        else vh::emit("> skip");
    }
}

} // namespace

int main() { return vh::run_all(run_case); }
