// C16 correspondence harness: a scripted registry (h_c16_util.h) is run by the real TestRegistry with
// the real JUnitTestOutput; the file seams PlatformSpecificFOpen/FPuts/FClose are replaced by
// in-memory files.  Observations at `run`:
//   timestamp <hex>                     the (stubbed) GetPlatformSpecificTimeString(), an environment input
//   file <hex name> <hex content>       one line per closed file, in the order they were closed
//   unclosed <hex name>                 a file that was opened but never closed
// Real-I/O sub-mode (`realio` before `run`): the three file function pointers stay at the platform's real
// implementations (src/Platforms/Gcc/UtestPlatform.cpp: fopen / fputs / fclose); the run happens in a fresh
// temporary directory, the cpputest_*.xml files are read back from disk and reported exactly like the
// in-memory ones, in group order (the generator keeps the file names of such a run distinct);
//   missing <hex name>                  a report that should be on disk is not
//   file lines for anything else found in the directory follow, sorted by name.
#include "h_c16_util.h"
#include "CppUTest/JUnitTestOutput.h"
#include <dirent.h>
#include <sys/stat.h>

namespace {

struct MemFile { std::string name, content; bool open; };
std::vector<MemFile*> g_files;

PlatformSpecificFile mem_fopen(const char* filename, const char* flag) {
    MemFile* f = new MemFile();
    f->name = filename; f->open = true;
    if (std::string(flag) != "w") f->name += std::string(" [flag ") + flag + "]";
    g_files.push_back(f);
    return (PlatformSpecificFile) f;
}
MemFile* lookup(PlatformSpecificFile file) {
    for (size_t i = 0; i < g_files.size(); i++) if ((PlatformSpecificFile) g_files[i] == file) return g_files[i];
    return 0;
}
void mem_fputs(const char* s, PlatformSpecificFile file) {
    MemFile* f = lookup(file);
    if (f && f->open) f->content += s;
    else if (f) vh::emit("write-after-close %s", vh::hex(f->name).c_str());
}
void mem_fclose(PlatformSpecificFile file) {
    MemFile* f = lookup(file);
    if (!f) return;
    if (!f->open) { vh::emit("double-close %s", vh::hex(f->name).c_str()); return; }
    f->open = false;
    vh::emit("file %s %s", vh::hex(f->name).c_str(), vh::hex(f->content).c_str());
}
void no_flush() {}

PlatformSpecificFile (*g_real_fopen)(const char*, const char*) = 0;
void (*g_real_fputs)(const char*, PlatformSpecificFile) = 0;
void (*g_real_fclose)(PlatformSpecificFile) = 0;

bool read_file(const std::string& path, std::string& out) {
    FILE* f = fopen(path.c_str(), "rb");
    if (!f) return false;
    char buf[65536]; size_t n;
    out.clear();
    while ((n = fread(buf, 1, sizeof buf, f)) > 0) out.append(buf, n);
    fclose(f);
    return true;
}

// the report names in the order the groups end (the name a group's report gets: JUnitTestOutput::createFileName of the
// group, or of "" when none of its tests runs)
std::vector<std::string> expected_names(const vo::Registry& reg, JUnitTestOutput& out) {
    std::vector<std::string> names;
    TestFilter filter(reg.filter.c_str());
    if (reg.strict) filter.strictMatching();
    if (reg.invert) filter.invertMatching();
    size_t i = 0;
    while (i < reg.scripts.size()) {
        size_t j = i; bool any = false;
        while (j < reg.scripts.size() && reg.scripts[j].group == reg.scripts[i].group) {
            if (!reg.has_filter || filter.match(SimpleString(reg.scripts[j].name.c_str()))) any = true;
            j++;
        }
        names.push_back(out.createFileName(SimpleString(any ? reg.scripts[i].group.c_str() : "")).asCharString());
        i = j;
    }
    return names;
}

void run_real_io(const vo::Registry& reg) {
    char tmpl[] = "/tmp/h_c16_XXXXXX";
    char* dir = mkdtemp(tmpl);
    if (!dir || chdir(dir) != 0) { vh::emit("crash cannot-create-temporary-directory"); return; }
    std::vector<std::string> names;
    {
        JUnitTestOutput out;
        out.setPackageName(SimpleString(reg.package.c_str()));
        names = expected_names(reg, out);
    }
    // the run itself happens in a process of its own, so that the directory is removed even when the run dies
    fflush(stdout); fflush(stderr);
    pid_t pid = fork();
    if (pid == 0) {
        alarm(30);
        PlatformSpecificFOpen = g_real_fopen;
        PlatformSpecificFPuts = g_real_fputs;
        PlatformSpecificFClose = g_real_fclose;
        {
            JUnitTestOutput out;
            out.setPackageName(SimpleString(reg.package.c_str()));
            vo::run_registry(reg, out);
        }
        fflush(stdout); fflush(stderr);
        _exit(0);
    }
    int st = 0;
    while (waitpid(pid, &st, 0) < 0 && errno == EINTR) { }
    std::set<std::string> seen;
    for (size_t k = 0; k < names.size(); k++) {
        std::string content;
        if (read_file(names[k], content)) vh::emit("file %s %s", vh::hex(names[k]).c_str(), vh::hex(content).c_str());
        else vh::emit("missing %s", vh::hex(names[k]).c_str());
        seen.insert(names[k]);
    }
    std::vector<std::string> others;
    if (DIR* d = opendir(".")) {
        while (struct dirent* e = readdir(d)) {
            std::string n = e->d_name;
            if (n == "." || n == "..") continue;
            if (!seen.count(n)) others.push_back(n);
            else unlink(n.c_str());
        }
        closedir(d);
    }
    std::sort(others.begin(), others.end());
    for (size_t k = 0; k < others.size(); k++) {
        std::string content;
        read_file(others[k], content);
        vh::emit("file %s %s", vh::hex(others[k]).c_str(), vh::hex(content).c_str());
        unlink(others[k].c_str());
    }
    if (chdir("/") != 0) {}
    rmdir(dir);
    if (WIFSIGNALED(st)) vh::emit("crash realio-child signal %d", WTERMSIG(st));
    else if (WIFEXITED(st) && WEXITSTATUS(st) != 0)
        vh::emit("crash realio-child %s", WEXITSTATUS(st) == 77 ? "asan" : WEXITSTATUS(st) == 78 ? "ubsan" : "exit");
}

void run_case(const vh::Case& c) {
    vo::Registry reg;
    if (!g_real_fopen) { g_real_fopen = PlatformSpecificFOpen; g_real_fputs = PlatformSpecificFPuts; g_real_fclose = PlatformSpecificFClose; }
    PlatformSpecificFOpen = mem_fopen;
    PlatformSpecificFPuts = mem_fputs;
    PlatformSpecificFClose = mem_fclose;
    PlatformSpecificFlush = no_flush;
    for (size_t i = 0; i < c.ops.size(); i++) {
        const vh::Words& w = c.ops[i];
        if (w[0] == "run" && w.size() == 1) {
            vh::emit_op("run");
            vh::emit("timestamp %s", vh::hex(std::string(vo::fake_time_string())).c_str());
            if (reg.realio) { run_real_io(reg); continue; }
            size_t first = g_files.size();
            {
                JUnitTestOutput out;
                out.setPackageName(SimpleString(reg.package.c_str()));
                vo::run_registry(reg, out);
            }
            for (size_t k = first; k < g_files.size(); k++)
                if (g_files[k]->open) vh::emit("unclosed %s", vh::hex(g_files[k]->name).c_str());
        }
        else if (vo::apply_op(reg, w)) vh::emit_op(vo::join(w));
        else vh::emit("> skip");
    }
}

} // namespace

int main() { return vh::run_all(run_case); }
