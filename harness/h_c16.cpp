// C16 correspondence harness: a scripted registry (h_c16_util.h) is run by the real TestRegistry with
// the real JUnitTestOutput; the file seams PlatformSpecificFOpen/FPuts/FClose are replaced by
// in-memory files.  Observations at `run`:
//   timestamp <hex>                     the (stubbed) GetPlatformSpecificTimeString(), an environment input
//   file <hex name> <hex content>       one line per closed file, in the order they were closed
//   unclosed <hex name>                 a file that was opened but never closed
#include "h_c16_util.h"
#include "CppUTest/JUnitTestOutput.h"

namespace {

struct MemFile { std::string name, content; bool open; };
std::vector<MemFile*> g_files;

PlatformSpecificFile mem_fopen(const char* filename, const char* flag) {
    MemFile* f = new MemFile();
    f->name = filename; f->open = true;
    if (std::string(flag) != "w") f->name += std::string(" [flag ") + flag + "]";
    g_files.push_back(f);
    return (PlatformSpecificFile) f;
}
MemFile* lookup(PlatformSpecificFile file) {
    for (size_t i = 0; i < g_files.size(); i++) if ((PlatformSpecificFile) g_files[i] == file) return g_files[i];
    return 0;
}
void mem_fputs(const char* s, PlatformSpecificFile file) {
    MemFile* f = lookup(file);
    if (f && f->open) f->content += s;
    else if (f) vh::emit("write-after-close %s", vh::hex(f->name).c_str());
}
void mem_fclose(PlatformSpecificFile file) {
    MemFile* f = lookup(file);
    if (!f) return;
    if (!f->open) { vh::emit("double-close %s", vh::hex(f->name).c_str()); return; }
    f->open = false;
    vh::emit("file %s %s", vh::hex(f->name).c_str(), vh::hex(f->content).c_str());
}
void no_flush() {}

void run_case(const vh::Case& c) {
    vo::Registry reg;
    PlatformSpecificFOpen = mem_fopen;
    PlatformSpecificFPuts = mem_fputs;
    PlatformSpecificFClose = mem_fclose;
    PlatformSpecificFlush = no_flush;
    for (size_t i = 0; i < c.ops.size(); i++) {
        const vh::Words& w = c.ops[i];
        if (w[0] == "run" && w.size() == 1) {
            vh::emit_op("run");
            vh::emit("timestamp %s", vh::hex(std::string(vo::fake_time_string())).c_str());
            size_t first = g_files.size();
            {
                JUnitTestOutput out;
                out.setPackageName(SimpleString(reg.package.c_str()));
                vo::run_registry(reg, out);
            }
            for (size_t k = first; k < g_files.size(); k++)
                if (g_files[k]->open) vh::emit("unclosed %s", vh::hex(g_files[k]->name).c_str());
        }
        else if (vo::apply_op(reg, w)) vh::emit_op(vo::join(w));
        else vh::emit("> skip");
    }
}

} // namespace

int main() { return vh::run_all(run_case); }
