// Shared code of the C04 / C06 correspondence harnesses (owned by C04).
//
// A PRIVATE MemoryLeakDetector is driven through its public API with a recording MemoryLeakFailure
// (records the text, returns, no longjmp).  All underlying memory comes from the three platform seams
// PlatformSpecificMalloc / PlatformSpecificRealloc / PlatformSpecificFree, which this harness replaces by an
// ARENA that hands out the slot the operation line names.  The arena base is a multiple of 73*16 and a
// slot is 512 bytes (512 % 73 == 1), so `printed address % 73` is the real hash bucket and slots k, k+73,
// k+146, ... share a bucket.  Addresses are printed as `pointer - base + 1168` (1168 = 73*16; 0 = NULL).
//
// Nothing inside the seams or the failure callback allocates: they append text to a static log that the
// operation prints when the detector call has returned.
#ifndef VERIF_H_C04_UTIL_H
#define VERIF_H_C04_UTIL_H
#include "common.h"
#include <new>
#include "CppUTest/TestHarness.h"
#include "CppUTest/MemoryLeakDetector.h"
#include "CppUTest/TestMemoryAllocator.h"
#include "CppUTest/MemoryLeakWarningPlugin.h"
#include "CppUTest/PlatformSpecificFunctions.h"
#include "CppUTest/TestHarness_c.h"
#include "CppUTest/TestOutput.h"
#include "CppUTest/TestResult.h"
#include "CppUTestExt/MemoryReporterPlugin.h"
#if defined(__SANITIZE_ADDRESS__)
#include <sanitizer/asan_interface.h>
#define LD_POISON(p, n) __asan_poison_memory_region((p), (n))
#define LD_UNPOISON(p, n) __asan_unpoison_memory_region((p), (n))
#else
#define LD_POISON(p, n) ((void) 0)
#define LD_UNPOISON(p, n) ((void) 0)
#endif

#undef new
#undef malloc
#undef free
#undef realloc
#undef calloc
#undef strdup
#undef strndup

namespace ld {

enum { SLOT = 512, NSLOTS = 73 * 6, LOGICAL_BASE = 16 * MEMORY_LEAK_HASH_TABLE_SIZE, MAXUSER = 400 };

static char* g_base = 0;                 // arena base, multiple of 1168
static bool g_live[NSLOTS];              // slot currently handed out
static size_t g_usersize[NSLOTS];        // user size of the block in the slot (set by the operation)
// harness-side shadow of "the detector holds a record for the block in this slot" (with the period the record was
// stamped with): only used to refuse client misuse that is outside every property (giving a block back to the
// underlying allocator, or writing into it, while the detector still tracks it / after it is gone)
static bool g_tracked[NSLOTS];
static int g_recperiod[NSLOTS];
static size_t g_reqsize[NSLOTS];         // size the underlying request had
static int g_pending = -1;               // slot the next underlying request gets
static bool g_pending_null = false;      // the next underlying request is answered NULL
static bool g_in_det = false;            // inside a call of the detector under test
static long g_noted_size = -1;           // size argument seen by a recording allocator's free_memory
static bool g_print_sizes = true;        // the operation's allocator is a plain recording allocator
static bool g_node_null = false;         // the next allocMemoryLeakNode of a recording allocator is answered NULL
static bool g_raw_free = false;          // a block that comes back during an allocation was never given to the client

static char g_log[1 << 17];
static size_t g_loglen = 0;
static void logf(const char* fmt, ...) {
    va_list ap; va_start(ap, fmt);
    if (g_loglen < sizeof(g_log) - 2048) {
        int n = vsnprintf(g_log + g_loglen, sizeof(g_log) - g_loglen - 2, fmt, ap);
        if (n > 0) g_loglen += (size_t) n;
        g_log[g_loglen++] = '\n'; g_log[g_loglen] = 0;
    }
    va_end(ap);
}

static void* g_nodes[1 << 16]; static size_t g_nnodes = 0;     // separately allocated bookkeeping nodes

inline unsigned long addr_of(const void* p) {
    if (!p) return 0;
    return (unsigned long) ((const char*) p - g_base) + LOGICAL_BASE;
}
inline char* ptr_of(unsigned long a) { return a == 0 ? (char*) 0 : g_base + (a - LOGICAL_BASE); }
inline bool in_arena(const void* p) { return (const char*) p >= g_base && (const char*) p < g_base + (size_t) SLOT * NSLOTS; }
inline int slot_of(const void* p) { return (int) (((const char*) p - g_base) / SLOT); }
inline bool slot_base(const void* p) { return in_arena(p) && (((const char*) p - g_base) % SLOT) == 0; }

static void hexinto(char* out, const unsigned char* p, size_t n) {
    static const char* d = "0123456789abcdef";
    if (n == 0) { out[0] = '-'; out[1] = 0; return; }
    for (size_t i = 0; i < n; i++) { out[2 * i] = d[p[i] >> 4]; out[2 * i + 1] = d[p[i] & 15]; }
    out[2 * n] = 0;
}

static void* seam_malloc(size_t size) {
    if (g_in_det && (g_pending >= 0 || g_pending_null)) {
        if (g_pending_null) { g_pending_null = false; g_pending = -1; logf("ualloc %lu 0", (unsigned long) size); return 0; }
        int s = g_pending; g_pending = -1;
        if (size > SLOT) { logf("ualloc-too-big %lu", (unsigned long) size); return 0; }
        char* p = g_base + (size_t) s * SLOT;
        LD_UNPOISON(p, SLOT);
        memset(p, 0xEE, SLOT);
        LD_POISON(p + size, SLOT - size);          // only the requested bytes may be touched
        g_live[s] = true; g_reqsize[s] = size;
        logf("ualloc %lu %lu", (unsigned long) size, addr_of(p));
        return p;
    }
    void* p = ::malloc(size ? size : 1);
    if (g_in_det && size == sizeof(MemoryLeakDetectorNode) && g_nnodes < (sizeof(g_nodes) / sizeof(g_nodes[0]))) {
        g_nodes[g_nnodes++] = p;
        logf("nalloc");
    }
    return p;
}

static void seam_free(void* p) {
    if (!p) return;
    if (in_arena(p)) {
        if (slot_base(p) && g_live[slot_of(p)]) {
            int s = slot_of(p);
            static char hx[2 * MAXUSER + 8];
            size_t n = g_usersize[s] <= MAXUSER ? g_usersize[s] : MAXUSER;
            hexinto(hx, (const unsigned char*) p, n);
            if (g_raw_free) strcpy(hx, "raw");
            if (g_noted_size >= 0 && g_print_sizes) logf("ufree %lu %ld %s", addr_of(p), g_noted_size, hx);
            else logf("ufree %lu - %s", addr_of(p), hx);
            g_live[s] = false; g_tracked[s] = false;
            LD_UNPOISON(p, SLOT);
            memset(p, 0xDD, SLOT);                 // the allocator reuses the memory: nothing in it survives
            LD_POISON(p, SLOT);
        }
        else if (g_in_det) logf("nfree 0");          // a pointer into a block: the inline record "freed" as if separate
        g_noted_size = -1;
        return;
    }
    for (size_t i = 0; i < g_nnodes; i++) if (g_nodes[i] == p) {
        g_nodes[i] = g_nodes[--g_nnodes];
        if (g_in_det) logf("nfree 1");
        ::free(p);
        return;
    }
    ::free(p);
}

static void* seam_realloc(void* mem, size_t size) {
    if (!(g_in_det && (g_pending >= 0 || g_pending_null))) return ::realloc(mem, size);
    if (g_pending_null) { g_pending_null = false; g_pending = -1; logf("urealloc %lu %lu 0", addr_of(mem), (unsigned long) size); return 0; }
    int s = g_pending; g_pending = -1;
    if (size > SLOT) { logf("urealloc-too-big %lu", (unsigned long) size); return 0; }
    char* p = g_base + (size_t) s * SLOT;
    LD_UNPOISON(p, SLOT);
    if (mem && p != (char*) mem) {
        size_t old = slot_base(mem) ? g_reqsize[slot_of(mem)] : 0;
        memset(p, 0xEE, SLOT);
        memcpy(p, mem, old < size ? old : size);
        if (slot_base(mem)) {
            g_live[slot_of(mem)] = false; g_tracked[slot_of(mem)] = false;
            LD_UNPOISON(mem, SLOT); memset(mem, 0xDD, SLOT); LD_POISON(mem, SLOT);
        }
    }
    else if (!mem) memset(p, 0xEE, SLOT);
    LD_POISON(p + size, SLOT - size);
    g_live[s] = true; g_reqsize[s] = size;
    logf("urealloc %lu %lu %lu", addr_of(mem), (unsigned long) size, addr_of(p));
    return p;
}

// libc directly: bookkeeping of helper objects that must stay outside the arena accounting
struct SideAllocator : public TestMemoryAllocator {
    SideAllocator() : TestMemoryAllocator("side", "side", "side") {}
    char* alloc_memory(size_t size, const char*, size_t) CPPUTEST_OVERRIDE { return (char*) ::malloc(size ? size : 1); }
    void free_memory(char* memory, size_t, const char*, size_t) CPPUTEST_OVERRIDE { ::free(memory); }
};

// a custom allocator (own name strings) that notes the size it is given back and otherwise behaves like the base class
struct RecAllocator : public TestMemoryAllocator {
    RecAllocator(const char* n, const char* a, const char* f) : TestMemoryAllocator(n, a, f) {}
    char* alloc_memory(size_t size, const char* file, size_t line) CPPUTEST_OVERRIDE {
        if (g_in_det && g_pending_null) return (char*) seam_malloc(size);      // the base class FAILs on NULL
        if (g_in_det && g_node_null && file && !strcmp(file, "MemoryLeakNode")) { g_node_null = false; logf("nalloc null"); return 0; }
        return TestMemoryAllocator::alloc_memory(size, file, line);
    }
    void free_memory(char* memory, size_t size, const char* file, size_t line) CPPUTEST_OVERRIDE {
        g_noted_size = (long) size;
        TestMemoryAllocator::free_memory(memory, size, file, line);
        g_noted_size = -1;
    }
};

struct Reporter : public MemoryLeakFailure {
    size_t seen;
    bool dirty;          // the detector's text buffer holds something other than the texts of `rereport` / `plugin refinal` calls
    Reporter() : seen(0), dirty(false) {}
    // the detector passes its whole text buffer; the new report is what follows the part already seen
    void fail(char* s) CPPUTEST_OVERRIDE {
        dirty = true;
        size_t n = strlen(s);
        const char* m = n >= seen ? s + seen : s;
        seen = n;
        char cat[128] = "", af[300] = "", at[128] = "", ff[300] = "", ft[128] = "";
        int al = 0, fl = 0; unsigned long as = 0;
        const char* l1 = m; const char* e1 = strchr(l1, '\n');
        const char* kind = "unparsed";
        if (e1) {
            size_t k = (size_t) (e1 - l1); if (k > 120) k = 120; memcpy(cat, l1, k); cat[k] = 0;
            if (!strcmp(cat, "Deallocating non-allocated memory")) kind = "nonallocated";
            else if (!strcmp(cat, "Allocation/deallocation type mismatch")) kind = "mismatch";
            else if (!strcmp(cat, "Memory corruption (written out of bounds?)")) kind = "corruption";
            const char* l2 = e1 + 1; const char* e2 = strchr(l2, '\n');
            const char* l3 = e2 ? e2 + 1 : 0; const char* e3 = l3 ? strchr(l3, '\n') : 0;
            bool ok = false;
            if (e2 && e3 && e3[1] == 0) {
                char b2[700], b3[700];
                size_t k2 = (size_t) (e2 - l2), k3 = (size_t) (e3 - l3);
                if (k2 < sizeof(b2) && k3 < sizeof(b3)) {
                    memcpy(b2, l2, k2); b2[k2] = 0; memcpy(b3, l3, k3); b3[k3] = 0;
                    int c2 = sscanf(b2, "   allocated at file: %299s line: %d size: %lu type: %127[^\n]", af, &al, &as, at);
                    int c3 = sscanf(b3, "   deallocated at file: %299s line: %d type: %127[^\n]", ff, &fl, ft);
                    ok = c2 == 4 && c3 == 3;
                }
            }
            if (!ok) kind = "unparsed";
        }
        if (!strcmp(kind, "unparsed") && n + 1 >= (size_t) SimpleStringBuffer::SIMPLE_STRING_BUFFER_LEN) {
            // the detector's text buffer is full (many reports in one call): the text of this report is cut or missing;
            // the capacity of that buffer is not the subject here
            logf("fail lost");
            return;
        }
        if (!strcmp(kind, "unparsed")) {
            static char hx[2048]; size_t k = strlen(m); if (k > 1000) k = 1000;
            hexinto(hx, (const unsigned char*) m, k);
            logf("fail unparsed %s", hx);
            return;
        }
        size_t fn = strlen(ff); const char* suffix = "MemoryLeakDetector.cpp"; size_t sn = strlen(suffix);
        if (fn >= sn && !strcmp(ff + fn - sn, suffix)) { strcpy(ff, "<stage>"); fl = 0; }
        static char hat[300], hft[300];
        hexinto(hat, (const unsigned char*) at, strlen(at)); hexinto(hft, (const unsigned char*) ft, strlen(ft));
        logf("fail %s %s %d %lu %s %s %d %s", kind, af, al, as, hat, ff, fl, hft);
    }
};

struct NullReporter : public MemoryLeakFailure { void fail(char*) CPPUTEST_OVERRIDE {} };

struct Label { unsigned long addr; size_t size; };

struct AllocDesc { TestMemoryAllocator* a; bool wrap; int orig; bool rec; };

struct Harness {
    MemoryLeakDetector* det;
    Reporter reporter;
    MemoryLeakDetector* sink; NullReporter sinkReporter;
    std::vector<AllocDesc> allocs;
    std::map<std::string, Label> labels;
    int period;                      // 1 disabled, 2 enabled, 3 checking (MemLeakPeriod values)
    MemoryAccountant* accountant;
    SideAllocator side;
    bool c06;
    GlobalMemoryAllocatorStash stash; // `stash save` / `stash restore`
    // the two real plugins that drive the detector / the current allocators around a test
    MemoryLeakWarningPlugin* lwp;
    MemoryReporterPlugin* mrp;
    UtestShell* shell; StringBufferTestOutput* out; TestResult* result;
    bool mrp_active;                 // between its pre and post action (a second pre would make a report allocator its own real allocator)

    Harness(bool c06_) : det(0), sink(0), period(mem_leak_period_disabled), accountant(0), c06(c06_), lwp(0), mrp(0), shell(0), out(0), result(0), mrp_active(false) {}

    void init() {
        MemoryLeakWarningPlugin::turnOffNewDeleteOverloads();
        char* raw = (char*) ::malloc((size_t) SLOT * NSLOTS + 2 * LOGICAL_BASE);
        unsigned long r = (unsigned long) raw;
        g_base = raw + (LOGICAL_BASE - r % LOGICAL_BASE) % LOGICAL_BASE;
        memset(g_live, 0, sizeof(g_live)); memset(g_tracked, 0, sizeof(g_tracked));
        LD_POISON(g_base, (size_t) SLOT * NSLOTS);
        PlatformSpecificMalloc = seam_malloc; PlatformSpecificFree = seam_free; PlatformSpecificRealloc = seam_realloc;
        det = new MemoryLeakDetector(&reporter);
        sink = new MemoryLeakDetector(&sinkReporter);
        MemoryLeakWarningPlugin::setGlobalDetector(sink, &sinkReporter);
        SimpleString::setStringAllocator(&side);       // texts built by plugins / formatters stay out of the arena accounting
        // The switch position of the real overloads (11 function pointers, their saved copies, the nesting counter) is script
        // state.  Between two operations it is parked with saveAndDisableNewDeleteOverloads() (the harness's own new/delete must
        // not reach a detector); every operation that uses or changes it runs between restoreNewDeleteOverloads() and the next
        // saveAndDisableNewDeleteOverloads().  Initial position: the plain (not thread-safe) overloads.
        MemoryLeakWarningPlugin::turnOnDefaultNotThreadSafeNewDeleteOverloads();
        MemoryLeakWarningPlugin::saveAndDisableNewDeleteOverloads();
        shell = new UtestShell("group", "name", "file.cpp", 1);
        out = new StringBufferTestOutput(); result = new TestResult(*out);
        accountant = new MemoryAccountant();
        accountant->setAllocator(&side);
        add(defaultNewAllocator(), false, -1, false);                                                        // 0
        add(defaultNewArrayAllocator(), false, -1, false);                                                   // 1
        add(defaultMallocAllocator(), false, -1, false);                                                     // 2
        add(new RecAllocator("Standard New Allocator", "new", "delete"), false, -1, true);                   // 3
        add(new RecAllocator("Standard New [] Allocator", "new []", "delete []"), false, -1, true);          // 4
        add(new RecAllocator("Standard Malloc Allocator", "malloc", "free"), false, -1, true);               // 5
        add(new TestMemoryAllocator("custom A", "allocA", "freeA"), false, -1, false);                        // 6
        add(new RecAllocator("custom A", "allocA2", "freeA2"), false, -1, true);                             // 7
        add(new RecAllocator("custom B", "allocB", "freeB"), false, -1, true);                               // 8
        add(new AccountingTestMemoryAllocator(*accountant, allocs[0].a), true, 0, false);                    // 9
        add(new AccountingTestMemoryAllocator(*accountant, allocs[5].a), true, 5, false);                    // 10
        add(new AccountingTestMemoryAllocator(*accountant, allocs[10].a), true, 10, false);                  // 11 (nested)
        add(new AccountingTestMemoryAllocator(*accountant, allocs[8].a), true, 8, false);                    // 12
        add(new MemoryLeakAllocator(allocs[1].a), true, 1, false);                                           // 13 (identity only)
        add(new MemoryLeakAllocator(allocs[12].a), true, 12, false);                                         // 14 (identity only)
    }
    void add(TestMemoryAllocator* a, bool wrap, int orig, bool rec) { AllocDesc d; d.a = a; d.wrap = wrap; d.orig = orig; d.rec = rec; allocs.push_back(d); }
    int index_of(TestMemoryAllocator* a) { for (size_t i = 0; i < allocs.size(); i++) if (allocs[i].a == a) return (int) i; return -1; }

    void flush(bool sort_groups = false) {
        std::vector<std::string> lines; std::string cur;
        for (size_t i = 0; i < g_loglen; i++) { if (g_log[i] == '\n') { lines.push_back(cur); cur.clear(); } else cur.push_back(g_log[i]); }
        g_loglen = 0; g_log[0] = 0;
        if (sort_groups) {
            // one group per released block: [fail] ufree ; groups ordered by address
            std::vector<std::pair<unsigned long, std::vector<std::string> > > groups; std::vector<std::string> g;
            for (size_t i = 0; i < lines.size(); i++) {
                g.push_back(lines[i]);
                if (lines[i].compare(0, 6, "ufree ") == 0) { groups.push_back(std::make_pair(strtoul(lines[i].c_str() + 6, 0, 10), g)); g.clear(); }
            }
            std::stable_sort(groups.begin(), groups.end(), [](const std::pair<unsigned long, std::vector<std::string> >& a, const std::pair<unsigned long, std::vector<std::string> >& b) { return a.first < b.first; });
            lines.clear();
            for (size_t i = 0; i < groups.size(); i++) for (size_t j = 0; j < groups[i].second.size(); j++) lines.push_back(groups[i].second[j]);
            for (size_t j = 0; j < g.size(); j++) lines.push_back(g[j]);
        }
        for (size_t i = 0; i < lines.size(); i++) vh::emit("%s", lines[i].c_str());
    }

    // empties the detector's text buffer without changing the modelled state (startChecking clears it)
    // (not forced: only when it holds a failure text or the text of a plain `report`; the texts of `rereport` calls stay, so
    // that several reports are asked of one detector without a startChecking() in between)
    void clear_text(bool force = true) {
        if (!force && !reporter.dirty) return;
        det->startChecking();
        if (period == mem_leak_period_enabled) det->enable();
        else if (period == mem_leak_period_disabled) det->disable();
        reporter.seen = 0; reporter.dirty = false;
    }

    void totals() {
        vh::emit("totals %lu %lu %lu %lu", (unsigned long) det->totalMemoryLeaks(mem_leak_period_all),
                 (unsigned long) det->totalMemoryLeaks(mem_leak_period_disabled),
                 (unsigned long) det->totalMemoryLeaks(mem_leak_period_enabled),
                 (unsigned long) det->totalMemoryLeaks(mem_leak_period_checking));
        vh::emit("allocnum %u", det->getCurrentAllocationNumber());
    }

    static unsigned long long fnv1a(const char* t) {
        unsigned long long h = 0xcbf29ce484222325ULL;
        for (const unsigned char* q = (const unsigned char*) t; *q; q++) { h ^= *q; h *= 0x100000001b3ULL; }
        return h;
    }

    static int period_of(const std::string& s) {
        if (s == "all") return mem_leak_period_all; if (s == "disabled") return mem_leak_period_disabled;
        if (s == "enabled") return mem_leak_period_enabled; if (s == "checking") return mem_leak_period_checking;
        return -1;
    }

    // label | label+delta handled by the caller; returns false when the label is unknown
    bool resolve(const std::string& w, const std::string& delta, unsigned long& addr) {
        long d = (long) vh::to_i64(delta);
        if (w == "null") { addr = 0; return true; }
        if (w[0] == '@') { addr = strtoul(w.c_str() + 1, 0, 10); return true; }
        std::map<std::string, Label>::iterator it = labels.find(w);
        if (it == labels.end()) return false;
        addr = (unsigned long) ((long) it->second.addr + d);
        return true;
    }

    bool slot_ok(const std::string& w, size_t size, int& slot) {
        slot = atoi(w.c_str());
        return slot >= 0 && slot < NSLOTS && !g_live[slot] && size <= MAXUSER;
    }

    // __LINE__ is an int; the texts print line numbers through (int)
    static bool line_ok(const std::string& w) { return vh::to_u64(w) <= 2147483647ULL && w.size() <= 10; }

    // the detector made a record for the block it just returned
    void track(const void* p) { if (p && slot_base(p)) { g_tracked[slot_of(p)] = true; g_recperiod[slot_of(p)] = period; } }
    static bool shadow_in_period(int q, int rp) {
        return q == mem_leak_period_all || rp == q || (rp != mem_leak_period_disabled && q == mem_leak_period_enabled);
    }

    void fill_user(char* p, size_t size) { if (p && size) memset(p, 0xA5, size); }

    void set_print_sizes(int ai) { g_print_sizes = !allocs[ai].wrap && allocs[ai].rec; }

    void report(int p) {
        clear_text();
        emit_report(det->report((MemLeakPeriod) p));
        reporter.dirty = true;
    }

    // a report asked for again: the text buffer is NOT emptied first (unless it holds something else), the answer is the text
    // this call appended.  `whole` is the detector's complete text after the call.
    void emit_appended(const char* whole) {
        size_t n = strlen(whole);
        const char* part = whole + (reporter.seen <= n ? reporter.seen : n);
        reporter.seen = n;
        if (n + 1 >= (size_t) 3500) {
            // the text buffer is (nearly) full: this answer may be cut or dropped - past the lowered write limit of a report
            // (buffer length minus the footer reserve, > 3500; a report without leaks leaves that limit lowered) nothing more is
            // appended; the capacity of that buffer is not the subject here (it is C14's)
            reporter.dirty = true;
            vh::emit("report full");
            return;
        }
        emit_report(part, true);
    }
    void rereport(int p) {
        clear_text(false);
        emit_appended(det->report((MemLeakPeriod) p));
    }

    // the text of a report: length + hash of the complete text, then the parsed entries
    // (appended: the text one more report added to earlier ones; past the lowered write limit such a report consists of the
    // too-many notice and the footer only)
    void emit_report(const char* txt, bool appended = false) {
        std::string t(txt);
        // the complete text (header, entries with memory dumps, truncation, footer) is compared through its length and hash
        vh::emit("reporttext %lu %016llx", (unsigned long) t.size(), fnv1a(txt));
        if (t == "No memory leaks were detected.") { vh::emit("report none"); return; }
        std::vector<std::string> ls; std::string cur;
        for (size_t i = 0; i < t.size(); i++) { if (t[i] == '\n') { ls.push_back(cur); cur.clear(); } else cur.push_back(t[i]); }
        if (!cur.empty()) ls.push_back(cur);
        bool header = !ls.empty() && ls[0] == "Memory leak(s) found.";
        bool truncated = t.find("Too many memory leaks to report") != std::string::npos;
        bool warn = t.find("NOTE:\n\tMemory leak reports about malloc and free") != std::string::npos;
        long total = -1;
        std::vector<std::pair<unsigned long, std::string> > entries; bool bad = !header && !(appended && truncated);
        for (size_t i = 0; i < ls.size(); i++) {
            unsigned num; unsigned long size; char file[300]; int line; char type[128];
            if (ls[i].compare(0, 11, "Alloc num (") == 0) {
                int c = sscanf(ls[i].c_str(), "Alloc num (%u) Leak size: %lu Allocated at: %299s and line: %d. Type: \"%127[^\"]\"", &num, &size, file, &line, type);
                void* mp = 0;
                if (c == 5 && i + 1 < ls.size() && sscanf(ls[i + 1].c_str(), "\tMemory: <%p> Content:", &mp) == 1) {
                    char buf[900]; char ht[300]; hexinto(ht, (const unsigned char*) type, strlen(type));
                    snprintf(buf, sizeof(buf), "leak %lu %u %lu %s %d %s", addr_of(mp), num, size, file, line, ht);
                    entries.push_back(std::make_pair(addr_of(mp), std::string(buf)));
                }
                else if (!truncated) bad = true;
            }
            else if (ls[i].compare(0, 23, "Total number of leaks: ") == 0) total = atol(ls[i].c_str() + 23);
        }
        if (bad || total < 0) { vh::emit("report unparsed %s", vh::hex(t).c_str()); return; }
        if (truncated) { vh::emit("report truncated %ld", total); return; }
        vh::emit("report total %ld %d", total, warn ? 1 : 0);
        std::sort(entries.begin(), entries.end());
        for (size_t i = 0; i < entries.size(); i++) vh::emit("%s", entries[i].second.c_str());
    }

    void op_setup() {
        vh::emit_op("setup");
        vh::emit("const nodesize %lu hashprime %d guard %d", (unsigned long) sizeof(MemoryLeakDetectorNode), (int) MEMORY_LEAK_HASH_TABLE_SIZE,
                 (int) MemoryLeakDetector::memory_corruption_buffer_size);
        vh::emit("base %lu", (unsigned long) g_base - (unsigned long) LOGICAL_BASE);     // real address = base + printed address (for %p)
        for (size_t i = 0; i < allocs.size(); i++) {
            TestMemoryAllocator* a = allocs[i].a;
            if (allocs[i].wrap) vh::emit("allocator %lu wrap %d", (unsigned long) i, allocs[i].orig);
            else vh::emit("allocator %lu plain %d %s %s %s", (unsigned long) i, allocs[i].rec ? 1 : 0, vh::hex(std::string(a->name())).c_str(),
                          vh::hex(std::string(a->alloc_name())).c_str(), vh::hex(std::string(a->free_name())).c_str());
        }
        // what the real virtual functions answer
        for (size_t i = 0; i < allocs.size(); i++) {
            TestMemoryAllocator* a = allocs[i].a;
            vh::emit("actual %lu %d %s %s", (unsigned long) i, index_of(a->actualAllocator()),
                     vh::hex(std::string(a->alloc_name())).c_str(), vh::hex(std::string(a->free_name())).c_str());
        }
    }

    bool alloc_index(const std::string& w, int& ai, bool for_calls) {
        ai = atoi(w.c_str());
        if (ai < 0 || ai >= (int) allocs.size()) return false;
        if (for_calls && ai >= 13) return false;      // MemoryLeakAllocator objects forward to the global detector: identity only
        return true;
    }

    void run(const vh::Case& c) {
        for (size_t i = 0; i < c.ops.size(); i++) {
            const vh::Words& w = c.ops[i];
            const std::string& o = w[0];
            g_loglen = 0; g_log[0] = 0; g_pending = -1; g_pending_null = false;
            bool did = true;
            if (o == "setup" && w.size() == 1 && i == 0) { op_setup(); continue; }
            else if (o == "alloc" && w.size() >= 8) {
                // alloc <label> <slot|null> <size> <alloc> <file> <line> <sep>
                size_t size = (size_t) vh::to_u64(w[3]); int ai, slot = -1; bool sep = w[7] == "1";
                bool isnull = w[2] == "null";
                bool nodenull = w.size() >= 9 && w[8] == "nodenull";
                if (nodenull && !(alloc_index(w[4], ai, true) && allocs[ai].rec && sep)) { vh::emit("> skip"); continue; }
                if (!alloc_index(w[4], ai, true) || (!isnull && !slot_ok(w[2], size, slot)) || (isnull && !allocs[ai].rec) || !line_ok(w[6])) { vh::emit("> skip"); continue; }
                vh::emit("> alloc %d %lu %s %lu %d", ai, (unsigned long) size, w[5].c_str(), (unsigned long) vh::to_u64(w[6]), sep ? 1 : 0);
                g_pending = slot; g_pending_null = isnull; set_print_sizes(ai);
                g_node_null = nodenull; g_raw_free = true;
                if (slot >= 0) g_usersize[slot] = size;
                g_in_det = true;
                char* p = det->allocMemory(allocs[ai].a, size, w[5].c_str(), (size_t) vh::to_u64(w[6]), sep);
                g_in_det = false;
                g_node_null = false; g_raw_free = false;
                if (p) { Label l; l.addr = addr_of(p); l.size = size; labels[w[1]] = l; if (slot_base(p)) g_usersize[slot_of(p)] = size; fill_user(p, size); track(p); }
                logf("ret %lu", addr_of(p));
                flush();
            }
            else if (o == "free" && w.size() >= 7) {
                // free <alloc> <label|null|@addr> <delta> <file> <line> <sep>
                int ai; unsigned long addr; bool sep = w[6] == "1";
                if (!alloc_index(w[1], ai, true) || !resolve(w[2], w[3], addr) || !line_ok(w[5])) { vh::emit("> skip"); continue; }
                vh::emit("> free %d %lu %s %lu %d", ai, addr, w[4].c_str(), (unsigned long) vh::to_u64(w[5]), sep ? 1 : 0);
                clear_text(false); set_print_sizes(ai);
                g_in_det = true;
                det->deallocMemory(allocs[ai].a, ptr_of(addr), w[4].c_str(), (size_t) vh::to_u64(w[5]), sep);
                g_in_det = false;
                flush();
            }
            else if (o == "realloc" && w.size() >= 10) {
                // realloc <alloc> <label|null|@addr> <delta> <newlabel> <slot|same|null> <size> <file> <line> <sep>
                int ai; unsigned long addr; size_t size = (size_t) vh::to_u64(w[6]); bool sep = w[9] == "1"; int slot = -1;
                if (!alloc_index(w[1], ai, true) || !resolve(w[2], w[3], addr) || !line_ok(w[8])) { vh::emit("> skip"); continue; }
                bool isnull = w[5] == "null";
                if (w[5] == "same") {
                    char* p = ptr_of(addr);
                    if (!(p && slot_base(p) && g_live[slot_of(p)] && size <= MAXUSER)) { vh::emit("> skip"); continue; }
                    slot = slot_of(p);
                }
                else if (!isnull && !slot_ok(w[5], size, slot)) { vh::emit("> skip"); continue; }
                vh::emit("> realloc %d %lu %lu %s %lu %d", ai, addr, (unsigned long) size, w[7].c_str(), (unsigned long) vh::to_u64(w[8]), sep ? 1 : 0);
                clear_text(false); set_print_sizes(ai);
                g_pending = slot; g_pending_null = isnull;
                g_in_det = true;
                char* p = det->reallocMemory(allocs[ai].a, ptr_of(addr), size, w[7].c_str(), (size_t) vh::to_u64(w[8]), sep);
                g_in_det = false;
                if (p) { Label l; l.addr = addr_of(p); l.size = size; labels[w[4]] = l; if (slot_base(p)) g_usersize[slot_of(p)] = size; fill_user(p, size); track(p); }
                logf("ret %lu", addr_of(p));
                flush();
            }
            else if (o == "period" && w.size() >= 2) {
                if (w[1] == "start") { det->startChecking(); period = mem_leak_period_checking; reporter.seen = 0; reporter.dirty = false; }
                else if (w[1] == "stop") { det->stopChecking(); period = mem_leak_period_enabled; }
                else if (w[1] == "enable") { det->enable(); period = mem_leak_period_enabled; }
                else if (w[1] == "disable") { det->disable(); period = mem_leak_period_disabled; }
                else did = false;
                if (did) vh::emit("> period %s", w[1].c_str());
            }
            else if (o == "typecheck" && w.size() >= 2 && (w[1] == "on" || w[1] == "off")) {
                if (w[1] == "on") det->enableAllocationTypeChecking(); else det->disableAllocationTypeChecking();
                vh::emit("> typecheck %s", w[1].c_str());
            }
            else if (o == "stage" && w.size() >= 2) {
                if (w[1] == "inc") { det->increaseAllocationStage(); vh::emit("> stage inc"); }
                else if (w[1] == "dec") { det->decreaseAllocationStage(); vh::emit("> stage dec"); }
                else if (w[1] == "release") {
                    vh::emit("> stage release");
                    clear_text(false); g_print_sizes = false;
                    g_in_det = true; det->deallocAllMemoryInCurrentAllocationStage(); g_in_det = false;
                    flush(true);
                }
                else did = false;
                if (did) vh::emit("stagenow %u", (unsigned) det->getCurrentAllocationStage());
            }
            else if (o == "clear" && w.size() >= 2 && period_of(w[1]) >= 0) {
                vh::emit("> clear %s", w[1].c_str());
                det->clearAllAccounting((MemLeakPeriod) period_of(w[1]));
                // blocks whose record was dropped stay allocated in the arena (the detector no longer knows them)
                for (int k = 0; k < NSLOTS; k++)
                    if (g_live[k] && g_tracked[k] && shadow_in_period(period_of(w[1]), g_recperiod[k])) g_tracked[k] = false;
            }
            else if (o == "drop" && w.size() >= 2) {
                // the client gives a block whose record was cleared back to the underlying allocator itself
                // (the detector is not involved; it must not know the address any more)
                std::map<std::string, Label>::iterator it = labels.find(w[1]);
                char* p = it == labels.end() ? 0 : ptr_of(it->second.addr);
                // never while the detector still tracks the block (it would read freed memory in its next report): that is
                // client misuse outside the property, as is dropping a block twice
                if (!(p && slot_base(p) && g_live[slot_of(p)] && !g_tracked[slot_of(p)])) { vh::emit("> skip"); continue; }
                vh::emit("> drop %lu", it->second.addr);
                g_in_det = false; seam_free(p); g_loglen = 0; g_log[0] = 0;
            }
            else if (o == "mark" && w.size() == 1) {
                vh::emit("> mark"); det->markCheckingPeriodLeaksAsNonCheckingPeriod();
                for (int k = 0; k < NSLOTS; k++)
                    if (g_tracked[k] && g_recperiod[k] == mem_leak_period_checking) g_recperiod[k] = mem_leak_period_enabled;
            }
            else if (o == "rereport" && w.size() >= 2 && period_of(w[1]) >= 0) { vh::emit("> rereport %s", w[1].c_str()); rereport(period_of(w[1])); }
            else if (o == "report" && w.size() >= 2 && period_of(w[1]) >= 0) { vh::emit("> report %s", w[1].c_str()); report(period_of(w[1])); }
            else if (o == "write" && w.size() >= 4 && c06) {
                // write <label> <off> <bytehex>: the client stores one byte at user+off (user bytes or guard bytes of a live block)
                std::map<std::string, Label>::iterator it = labels.find(w[1]);
                size_t off = (size_t) vh::to_u64(w[2]); std::string b = vh::unhex(w[3]);
                if (it == labels.end() || w[3].size() != 2 || vh::hexval(w[3][0]) < 0 || vh::hexval(w[3][1]) < 0) { vh::emit("> skip"); continue; }
                char* p = ptr_of(it->second.addr);
                if (!(slot_base(p) && g_live[slot_of(p)] && g_tracked[slot_of(p)] && it->second.size == g_usersize[slot_of(p)] &&
                      off < it->second.size + (size_t) MemoryLeakDetector::memory_corruption_buffer_size)) { vh::emit("> skip"); continue; }
                vh::emit("> write %lu %lu %s", it->second.addr, (unsigned long) off, w[3].c_str());
                p[off] = b[0];
            }
            else if (o == "invalidate" && w.size() >= 3 && c06) {
                unsigned long addr;
                if (!resolve(w[1], w[2], addr)) { vh::emit("> skip"); continue; }
                vh::emit("> invalidate %lu", addr);
                det->invalidateMemory(ptr_of(addr));
            }
            else if (o == "plugin" && w.size() >= 2) {
                // the real MemoryLeakWarningPlugin on the detector under test: create | pre | post | ignore | expect <n>
                if (w[1] == "create" && !lwp) {
                    vh::emit("> plugin create");
                    lwp = new MemoryLeakWarningPlugin("MemoryLeakPlugin", det);          // the constructor enables the detector
                    period = mem_leak_period_enabled;
                }
                else if (w[1] == "pre" && lwp) {
                    vh::emit("> plugin pre"); lwp->preTestAction(*shell, *result);
                    period = mem_leak_period_checking; reporter.seen = 0; reporter.dirty = false;
                }
                else if (w[1] == "post" && lwp) {
                    vh::emit("> plugin post"); lwp->postTestAction(*shell, *result);
                    period = mem_leak_period_enabled;
                    for (int k = 0; k < NSLOTS; k++)
                        if (g_tracked[k] && g_recperiod[k] == mem_leak_period_checking) g_recperiod[k] = mem_leak_period_enabled;
                }
                else if (w[1] == "final" && lwp && w.size() >= 3 && w[2].size() <= 6) {
                    // FinalReport(n): "" when exactly n blocks are outstanding for the period it counts, else a report
                    vh::emit("> plugin final %lu", (unsigned long) vh::to_u64(w[2]));
                    clear_text();
                    const char* txt = lwp->FinalReport((size_t) vh::to_u64(w[2]));
                    reporter.dirty = true;
                    if (txt[0] == 0) vh::emit("final empty");
                    else { vh::emit("final report"); emit_report(txt); }
                }
                else if (w[1] == "refinal" && lwp && w.size() >= 3 && w[2].size() <= 6) {
                    // FinalReport(n) asked for again: the text buffer is not emptied first, the answer is what the call appended
                    vh::emit("> plugin refinal %lu", (unsigned long) vh::to_u64(w[2]));
                    clear_text(false);
                    const char* txt = lwp->FinalReport((size_t) vh::to_u64(w[2]));
                    if (txt[0] == 0) vh::emit("final empty");
                    else { vh::emit("final report"); emit_appended(txt); }
                }
                else if (w[1] == "ignore" && lwp) { vh::emit("> plugin ignore"); lwp->ignoreAllLeaksInTest(); }
                else if (w[1] == "expect" && lwp && w.size() >= 3 && w[2].size() <= 6) {
                    vh::emit("> plugin expect %lu", (unsigned long) vh::to_u64(w[2])); lwp->expectLeaksInTest((size_t) vh::to_u64(w[2]));
                }
                else { vh::emit("> skip"); continue; }
            }
            else if (o == "mrp" && w.size() >= 2 && c06) {
                // the real MemoryReporterPlugin (-pmemoryreport=normal): create | pre | post; its three report allocators are
                // registry entries 15 (malloc), 16 (new), 17 (new[]) from `create` on
                if (w[1] == "create" && !mrp) {
                    vh::emit("> mrp create");
                    mrp = new MemoryReporterPlugin();
                    const char* av[] = { "prog", "-pmemoryreport=normal" };
                    bool ok = mrp->parseArguments(2, av, 1);
                    add(mrp->getMallocAllocator(), true, -1, false);
                    add(mrp->getNewAllocator(), true, -1, false);
                    add(mrp->getNewArrayAllocator(), true, -1, false);
                    vh::emit("parsed %d", ok ? 1 : 0);
                }
                else if (w[1] == "pre" && mrp && !mrp_active) { vh::emit("> mrp pre"); mrp->preTestAction(*shell, *result); mrp_active = true; }
                else if (w[1] == "post" && mrp && mrp_active) { vh::emit("> mrp post"); mrp->postTestAction(*shell, *result); mrp_active = false; }
                else { vh::emit("> skip"); continue; }
                vh::emit("current %d %d %d", index_of(getCurrentNewAllocator()), index_of(getCurrentNewArrayAllocator()), index_of(getCurrentMallocAllocator()));
            }
            else if (o == "overloads" && w.size() >= 2 && (w[1] == "threadsafe" || w[1] == "plain")) {
                // which set of overloads the g* operations switch on (the thread-safe ones take the detector's mutex)
                MemoryLeakWarningPlugin::restoreNewDeleteOverloads();
                if (w[1] == "threadsafe") MemoryLeakWarningPlugin::turnOnThreadSafeNewDeleteOverloads();
                else MemoryLeakWarningPlugin::turnOnDefaultNotThreadSafeNewDeleteOverloads();
                MemoryLeakWarningPlugin::saveAndDisableNewDeleteOverloads();
                vh::emit("> overloads %s", w[1].c_str());
            }
            else if (o == "ov" && w.size() >= 2 && !c06 && (w[1] == "off" || w[1] == "plain" || w[1] == "threadsafe" || w[1] == "save" || w[1] == "restore")) {
                // ov off|plain|threadsafe|save|restore: the five switch functions of MemoryLeakWarningPlugin on the script's switch position
                vh::emit("> ov %s", w[1].c_str());
                MemoryLeakWarningPlugin::restoreNewDeleteOverloads();
                if (w[1] == "off") MemoryLeakWarningPlugin::turnOffNewDeleteOverloads();
                else if (w[1] == "plain") MemoryLeakWarningPlugin::turnOnDefaultNotThreadSafeNewDeleteOverloads();
                else if (w[1] == "threadsafe") MemoryLeakWarningPlugin::turnOnThreadSafeNewDeleteOverloads();
                else if (w[1] == "save") MemoryLeakWarningPlugin::saveAndDisableNewDeleteOverloads();
                else MemoryLeakWarningPlugin::restoreNewDeleteOverloads();
                bool b = MemoryLeakWarningPlugin::areNewDeleteOverloaded();
                MemoryLeakWarningPlugin::saveAndDisableNewDeleteOverloads();
                vh::emit("overloaded %d", b ? 1 : 0);
            }
            else if (o == "stash" && w.size() >= 2 && !c06 && (w[1] == "save" || w[1] == "restore")) {
                vh::emit("> stash %s", w[1].c_str());
                if (w[1] == "save") stash.save(); else stash.restore();
                vh::emit("current %d %d %d", index_of(getCurrentNewAllocator()), index_of(getCurrentNewArrayAllocator()), index_of(getCurrentMallocAllocator()));
            }
            else if (o == "setcur-default" && w.size() >= 2 && !c06 && (w[1] == "new" || w[1] == "newarray" || w[1] == "malloc")) {
                vh::emit("> setcur-default %s", w[1].c_str());
                if (w[1] == "new") setCurrentNewAllocatorToDefault();
                else if (w[1] == "newarray") setCurrentNewArrayAllocatorToDefault();
                else setCurrentMallocAllocatorToDefault();
                vh::emit("current %d %d %d", index_of(getCurrentNewAllocator()), index_of(getCurrentNewArrayAllocator()), index_of(getCurrentMallocAllocator()));
            }
            else if (o == "setcur" && w.size() >= 3 && !c06 && w[2] == "null" && (w[1] == "new" || w[1] == "newarray" || w[1] == "malloc")) {
                // setCurrent…Allocator(NULL): the getter installs the family's default allocator when it finds NULL
                vh::emit("> setcur %s null", w[1].c_str());
                if (w[1] == "new") setCurrentNewAllocator(0);
                else if (w[1] == "newarray") setCurrentNewArrayAllocator(0);
                else setCurrentMallocAllocator(0);
                vh::emit("current %d %d %d", index_of(getCurrentNewAllocator()), index_of(getCurrentNewArrayAllocator()), index_of(getCurrentMallocAllocator()));
            }
            else if (o == "setcur" && w.size() >= 3) {
                // setcur new|newarray|malloc <alloc>
                int ai; if (!alloc_index(w[2], ai, true)) { vh::emit("> skip"); continue; }
                if (w[1] == "new") setCurrentNewAllocator(allocs[ai].a);
                else if (w[1] == "newarray") setCurrentNewArrayAllocator(allocs[ai].a);
                else if (w[1] == "malloc") setCurrentMallocAllocator(allocs[ai].a);
                else { vh::emit("> skip"); continue; }
                vh::emit("> setcur %s %d", w[1].c_str(), ai);
            }
            else if ((o == "gacq" && w.size() >= 7) || ((o == "gnew" || o == "gnewarray" || o == "gmalloc") && w.size() >= 6)) {
                // gacq <form> <label> <slot> <size> <file> <line>: one of the real acquiring overloads of MemoryLeakWarningPlugin.cpp
                //   new new_fi new_fs new_nt  newa newa_fi newa_fs newa_nt  malloc
                //   (plain, (size, file, int line), (size, file, size_t line), (size, std::nothrow); [] variants; cpputest_malloc_location)
                // gnew / gnewarray / gmalloc <label> <slot> <size> <file> <line> are new_fs / newa_fs / malloc
                std::string form = o == "gacq" ? w[1] : o == "gnew" ? "new_fs" : o == "gnewarray" ? "newa_fs" : "malloc";
                size_t k = o == "gacq" ? 2 : 1;
                size_t size = (size_t) vh::to_u64(w[k + 2]); int slot;
                static const char* forms[] = { "new", "new_fi", "new_fs", "new_nt", "newa", "newa_fi", "newa_fs", "newa_nt", "malloc" };
                bool known = false; for (size_t j = 0; j < 9; j++) if (form == forms[j]) known = true;
                if (!known || !slot_ok(w[k + 1], size, slot) || !line_ok(w[k + 4])) { vh::emit("> skip"); continue; }
                const char* file = w[k + 3].c_str(); size_t line = (size_t) vh::to_u64(w[k + 4]);
                TestMemoryAllocator* cur = form == "malloc" ? getCurrentMallocAllocator() : form.compare(0, 4, "newa") == 0 ? getCurrentNewArrayAllocator() : getCurrentNewAllocator();
                int ai = index_of(cur); if (ai < 0) { vh::emit("> skip"); continue; }
                vh::emit("> gacq %s %lu %s %lu", form.c_str(), (unsigned long) size, file, (unsigned long) line);
                g_pending = slot; set_print_sizes(ai);
                void* p = 0;
                bool on = overloaded_now();
                if (slot >= 0) g_usersize[slot] = size;
                global_on();
                if (form == "new") p = ::operator new(size);
                else if (form == "new_fi") p = ::operator new(size, file, (int) line);
                else if (form == "new_fs") p = ::operator new(size, file, line);
                else if (form == "new_nt") p = ::operator new(size, std::nothrow);
                else if (form == "newa") p = ::operator new[](size);
                else if (form == "newa_fi") p = ::operator new[](size, file, (int) line);
                else if (form == "newa_fs") p = ::operator new[](size, file, line);
                else if (form == "newa_nt") p = ::operator new[](size, std::nothrow);
                else p = cpputest_malloc_location(size, file, line);
                global_off();
                if (p) { Label l; l.addr = addr_of(p); l.size = size; labels[w[k]] = l; if (slot_base(p)) g_usersize[slot_of(p)] = size; fill_user((char*) p, size); if (on) track(p); }
                logf("ret %lu", addr_of(p));
                flush();
            }
            else if (o == "grealloc" && w.size() >= 8 && !c06) {
                // grealloc <label|null|@addr> <delta> <newlabel> <slot|same|null> <size> <file> <line>: cpputest_realloc_location,
                // the C entry point behind realloc_fptr (mem_leak_realloc / threadsafe_mem_leak_realloc / normal_realloc)
                unsigned long addr; size_t size = (size_t) vh::to_u64(w[5]); int slot = -1;
                if (!resolve(w[1], w[2], addr) || !line_ok(w[7])) { vh::emit("> skip"); continue; }
                bool isnull = w[4] == "null";
                char* old = ptr_of(addr);
                if (w[4] == "same") {
                    if (!(old && slot_base(old) && g_live[slot_of(old)] && size <= MAXUSER)) { vh::emit("> skip"); continue; }
                    slot = slot_of(old);
                }
                else if (!isnull && !slot_ok(w[4], size, slot)) { vh::emit("> skip"); continue; }
                bool on = overloaded_now();
                // with the overloads off the platform realloc gets the pointer: only NULL or a block the detector does not hold
                if (!on && old && !(slot_base(old) && g_live[slot_of(old)] && !g_tracked[slot_of(old)])) { vh::emit("> skip"); continue; }
                int ai = index_of(getCurrentMallocAllocator()); if (ai < 0) { vh::emit("> skip"); continue; }
                const char* file = w[6].c_str(); size_t line = (size_t) vh::to_u64(w[7]);
                vh::emit("> grealloc %lu %lu %s %lu", addr, (unsigned long) size, file, (unsigned long) line);
                clear_text(false); set_print_sizes(ai);
                g_pending = slot; g_pending_null = isnull;
                global_on();
                char* p = (char*) cpputest_realloc_location(old, size, file, line);
                global_off();
                if (p) { Label l; l.addr = addr_of(p); l.size = size; labels[w[3]] = l; if (slot_base(p)) g_usersize[slot_of(p)] = size; fill_user(p, size); if (on) track(p); }
                logf("ret %lu", addr_of(p));
                flush();
            }
            else if ((o == "grel" && w.size() >= 6) || ((o == "gdelete" || o == "gdeletearray" || o == "gfree") && w.size() >= 5)) {
                // grel <form> <label|null|@addr> <delta> <file> <line>: one of the real releasing overloads
                //   del del_fi del_fs del_sz del_nt  dela dela_fi dela_fs dela_sz dela_nt  free
                //   (plain, debug placement (p, file, int / size_t line), sized (p, size_t), nothrow placement (p, std::nothrow); [] variants;
                //    cpputest_free_location); gdelete / gdeletearray / gfree are del / dela / free
                std::string form = o == "grel" ? w[1] : o == "gdelete" ? "del" : o == "gdeletearray" ? "dela" : "free";
                size_t k = o == "grel" ? 2 : 1;
                static const char* forms[] = { "del", "del_fi", "del_fs", "del_sz", "del_nt", "dela", "dela_fi", "dela_fs", "dela_sz", "dela_nt", "free" };
                bool known = false; for (size_t j = 0; j < 11; j++) if (form == forms[j]) known = true;
                unsigned long addr;
                if (!known || !resolve(w[k], w[k + 1], addr) || !line_ok(w[k + 3])) { vh::emit("> skip"); continue; }
                if (!overloaded_now()) {
                    // with the overloads off the pointer goes straight to the platform free: only NULL or a block the detector
                    // does not hold may be given (anything else is client misuse outside the property)
                    char* q = ptr_of(addr);
                    if (q && !(in_arena(q) && slot_base(q) && g_live[slot_of(q)] && !g_tracked[slot_of(q)])) { vh::emit("> skip"); continue; }
                }
                const char* file = w[k + 2].c_str(); size_t line = (size_t) vh::to_u64(w[k + 3]);
                TestMemoryAllocator* cur = form == "free" ? getCurrentMallocAllocator() : form.compare(0, 4, "dela") == 0 ? getCurrentNewArrayAllocator() : getCurrentNewAllocator();
                int ai = index_of(cur); if (ai < 0) { vh::emit("> skip"); continue; }
                vh::emit("> grel %s %lu %s %lu", form.c_str(), addr, file, (unsigned long) line);
                clear_text(false); set_print_sizes(ai);
                char* p = ptr_of(addr);
                size_t sz = (p && slot_base(p) && g_live[slot_of(p)]) ? g_usersize[slot_of(p)] : 0;     // what a sized delete is told
                global_on();
                if (form == "del") ::operator delete(p);
                else if (form == "del_fi") ::operator delete(p, file, (int) line);
                else if (form == "del_fs") ::operator delete(p, file, line);
                else if (form == "del_sz") ::operator delete(p, sz);
                else if (form == "del_nt") ::operator delete(p, std::nothrow);
                else if (form == "dela") ::operator delete[](p);
                else if (form == "dela_fi") ::operator delete[](p, file, (int) line);
                else if (form == "dela_fs") ::operator delete[](p, file, line);
                else if (form == "dela_sz") ::operator delete[](p, sz);
                else if (form == "dela_nt") ::operator delete[](p, std::nothrow);
                else cpputest_free_location(p, file, line);
                global_off();
                flush();
            }
            else did = false;
            if (!did) { vh::emit("> skip"); continue; }
            totals();
        }
    }

    // route the real overloads to the detector under test for the duration of one call
    void global_on() {
        MemoryLeakWarningPlugin::setGlobalDetector(det, &reporter);
        MemoryLeakWarningPlugin::restoreNewDeleteOverloads();
        g_in_det = true;
    }
    void global_off() {
        g_in_det = false;
        MemoryLeakWarningPlugin::saveAndDisableNewDeleteOverloads();
        MemoryLeakWarningPlugin::setGlobalDetector(sink, &sinkReporter);
    }
    // areNewDeleteOverloaded() in the script's switch position
    bool overloaded_now() {
        MemoryLeakWarningPlugin::restoreNewDeleteOverloads();
        bool b = MemoryLeakWarningPlugin::areNewDeleteOverloaded();
        MemoryLeakWarningPlugin::saveAndDisableNewDeleteOverloads();
        return b;
    }
};

inline void run_case(const vh::Case& c, bool c06) {
    Harness* h = new Harness(c06);
    h->init();
    h->run(c);
}

} // namespace ld
#endif
