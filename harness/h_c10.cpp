// C10 correspondence harness (built with -fsanitize=thread): 1..16 pthreads run generated
// scripts through the REAL allocation entry points (operator new / new[] / nothrow / debug forms,
// operator delete / delete[], cpputest_malloc/calloc/realloc/free_location) after
// MemoryLeakWarningPlugin::turnOnThreadSafeNewDeleteOverloads().
//
// Seams wrapped (function pointers of the platform layer, no source change):
//   PlatformSpecificMutexLock / Unlock   forced pre-emption (sched_yield / short usleep chosen from the
//                                        case's seed) before and after acquire and release; counts
//                                        acquisitions/releases; checks mutual exclusion directly
//   PlatformSpecificMemset (0xCD poison)  counted like the allocator calls below
//   PlatformSpecificMalloc/Realloc/Free  the detector's underlying allocator calls: counts calls made by a
//                                        worker thread that does NOT hold the detector lock (`unlocked`)
// The global detector is a real MemoryLeakDetector whose failure reporter counts reports that fire
// while worker threads run (a longjmp from a worker would be undefined) and otherwise delegates to
// the library's own MemoryLeakWarningReporter (so a misuse on the main thread takes the real path:
// failWith(FailFailure, TestTerminatorWithoutExceptions) -> longjmp).
//
// Operations (one per line; labels b<N>, N < 4096):
//   fresh                         (first line only) this case's process switches the thread-safe overloads on BEFORE its
//                                 first tracked allocation, so that the save/restore cycle inside the first
//                                 getGlobalDetector() call runs under thread-safe mode; implies `on`
//   on | off                      thread-safe overloads / default overloads
//   save | restore                MemoryLeakWarningPlugin::saveAndDisableNewDeleteOverloads / restoreNewDeleteOverloads
//                                 (nesting allowed; phases are only run outside save scopes); afterwards every one of
//                                 the 11 pointers must still be on its thread-safe wrapper: a worker's underlying
//                                 allocator call without the lock is counted per entry form (`unlocked-at <form> <n>`)
//   threads <n> <seed>            start collecting scripts for n threads
//   t <tid> new|newnt|newdbg|newdbgi|newarr|newarrnt|newarrdbg|newarrdbgz|malloc|calloc|mallocd <label> <size>
//        (malloc/calloc: the macro path cpputest_malloc_location/cpputest_calloc_location, which also bumps the C
//         interface's allocation counter; mallocd: cpputest_malloc_location_with_leak_detection directly)
//   t <tid> realloc <label> <size>       (an unused label: realloc(NULL, size))
//   t <tid> delete|deletesz|deletent|deletedbg|deletedbgi|delarr|delarrsz|delarrnt|delarrdbg|delarrdbgi|free <label>
//        (plain, sized, nothrow and the two placement forms: together with the allocation forms all 21 entry points)
//   t <tid> give <label> <to> | t <tid> take <label>      hand-over between threads
//   run                           run the collected scripts concurrently, join, observe
//   cleanup                       release everything the threads still hold (main thread)
//   misuse <kind>                 one misuse on the main thread inside a nested setjmp scope, then the NEXT
//                                 allocation in a helper thread under a 2 s deadline (`next done|hang`)
//                                 kinds: {free,delete,delarr,realloc}_bogus (never allocated), new_free malloc_delete
//                                 new_delarr newarr_delete new_realloc newarr_realloc newarr_free malloc_delarr (allocator
//                                 mismatch), corrupt_{free,delete,delarr,realloc} (guard bytes overrun)
//   misuse <kind> junit           the same misuse, but raised inside a nested real test (ExecFunctionTestShell::runOneTest) whose
//                                 TestResult writes to a REAL JUnitTestOutput (file seams stubbed): JUnitTestOutput::printFailure
//                                 does `new TestFailure(failure)`, i.e. recording the failure allocates through operator new - in
//                                 thread-safe mode through the locked wrapper, on the thread that raised the report.  A reporter that
//                                 records the failure while it still holds the detector's non-recursive mutex blocks itself for
//                                 ever: `stalled` (watchdog, 2 s in this op).  Extra observation `recorded <n>` = <failure> elements
//                                 the JUnit output wrote for the nested test.
//   runm <kind>                   like `run`, and WHILE the worker threads run the test's own (main) thread performs the
//                                 misuse <kind> through the library's real reporter (failWith -> longjmp out of the locked
//                                 wrapper); the workers must finish (watchdog: `stalled` after 6 s without progress)
// Script lines are validated in file order (a valid linearisation); a line whose operands are missing or
// not owned is printed as `> skip`.
#include "fixture.h"
#include "CppUTest/MemoryLeakWarningPlugin.h"
#include "CppUTest/MemoryLeakDetector.h"
#include "CppUTest/PlatformSpecificFunctions.h"
#include "CppUTest/TestHarness_c.h"
#include "CppUTest/JUnitTestOutput.h"
#include "CppUTest/TestResult.h"
#include "CppUTest/TestPlugin.h"
#include <pthread.h>
#include <sched.h>
#include <time.h>
#include <new>
#include <execinfo.h>

#undef new
#undef malloc
#undef calloc
#undef realloc
#undef free
#undef strdup
#undef strndup

namespace {

enum { MAXL = 4096, MAXT = 16 };
enum OpKind { K_NEW, K_NEWNT, K_NEWDBG, K_NEWDBGI, K_NEWARR, K_NEWARRNT, K_NEWARRDBG, K_NEWARRDBGZ, K_MALLOC, K_CALLOC, K_MALLOCD,
              K_REALLOC,
              K_DELETE, K_DELETESZ, K_DELETENT, K_DELETEDBG, K_DELETEDBGI,
              K_DELARR, K_DELARRSZ, K_DELARRNT, K_DELARRDBG, K_DELARRDBGI,
              K_FREE, K_GIVE, K_TAKE };
enum Family { F_NONE = 0, F_NEW = 1, F_ARR = 2, F_MALLOC = 3 };

struct SOp { unsigned char kind; unsigned short label; unsigned int size; unsigned char to; };

// ---- shared state of a case (fixed arrays: worker threads never allocate on their own)
void* g_ptr[MAXL];
unsigned int g_size[MAXL];
unsigned char g_family[MAXL];
int g_owner[MAXL];                  // parse-time simulation: owning thread, -1 = unused
int g_transit[MAXL];                // parse-time simulation: handed over to thread, -1 = not in transit
std::atomic<int> g_given[MAXL];     // run time: receiver + 1 while handed over and not yet taken

std::vector<SOp> g_script[MAXT];
const SOp* g_script_ptr[MAXT];
size_t g_script_len[MAXT];

std::atomic<int> g_go(0);
std::atomic<long> g_progress(0);    // bumped by every operation of every thread; watched by the watchdog thread
std::atomic<long> g_locks(0), g_unlocks(0), g_inside(0), g_overlap(0), g_unlocked(0), g_reports(0), g_pattern(0), g_stuck(0);
std::atomic<int> g_concurrent(0);
std::atomic<int> g_short_deadline(0);   // `misuse <kind> junit`: only the main thread runs; 2 s without progress = blocked for ever
std::atomic<int> g_count_only(0);   // main thread: count reports instead of raising them (cleanup sweep)
bool g_on = false;
unsigned long g_seed = 1;

__thread int t_worker = 0;
__thread int t_cur_kind = 0;                 // the script form the worker is executing (attribution of `unlocked`)
std::atomic<long> g_unlocked_kind[32];
bool g_pristine = false;                     // no tracked allocation happened before main (needed for `fresh`)
bool g_fresh_done = false;
__thread int t_holding = 0;
__thread unsigned long long t_rng = 88172645463325252ULL;

void (*real_lock)(PlatformSpecificMutex) = 0;
void (*real_unlock)(PlatformSpecificMutex) = 0;
void* (*real_malloc)(size_t) = 0;
void* (*real_realloc)(void*, size_t) = 0;
void (*real_free)(void*) = 0;

inline unsigned long long rnd() {
    t_rng ^= t_rng << 13; t_rng ^= t_rng >> 7; t_rng ^= t_rng << 17;
    return t_rng;
}

// forced pre-emption point; the choice is a function of the case's seed and the thread only
inline void preempt() {
    if (!g_concurrent.load(std::memory_order_relaxed)) return;
    unsigned r = (unsigned) (rnd() >> 33) & 15;
    if (r < 7) return;
    if (r < 12) { sched_yield(); return; }
    if (r < 14) { sched_yield(); sched_yield(); sched_yield(); return; }
    usleep(1 + (useconds_t) ((rnd() >> 40) % 30));
}

void my_lock(PlatformSpecificMutex m) {
    preempt();
    real_lock(m);
    if (g_inside.fetch_add(1) != 0) g_overlap.fetch_add(1);
    t_holding++;
    g_locks.fetch_add(1);
    preempt();
}

void my_unlock(PlatformSpecificMutex m) {
    preempt();
    t_holding--;
    g_inside.fetch_sub(1);
    g_unlocks.fetch_add(1);
    real_unlock(m);
    preempt();
}

inline void underlying_call() {
    if (t_worker && g_on && t_holding == 0) { g_unlocked.fetch_add(1); g_unlocked_kind[t_cur_kind & 31].fetch_add(1); }
}
void* my_malloc(size_t n) { underlying_call(); return real_malloc(n); }
void* my_realloc(void* p, size_t n) { underlying_call(); return real_realloc(p, n); }
void my_free(void* p) { underlying_call(); real_free(p); }
// invalidateMemory poisons a released block with 0xCD through this seam after looking it up in the detector's
// table: it must happen under the lock as well (cpputest_calloc's zero fill, value 0, legitimately does not)
void* (*real_memset)(void*, int, size_t) = 0;
void* my_memset(void* p, int v, size_t n) { if ((v & 0xff) == 0xCD) underlying_call(); return real_memset(p, v, n); }

// ---- failure reporter: counts while workers run, otherwise the library's own reporter
MemoryLeakFailure* g_real_reporter = 0;
struct SwitchReporter : public MemoryLeakFailure {
    virtual void fail(char* fail_string) CPPUTEST_OVERRIDE {
        if (g_count_only.load() || t_worker) { g_reports.fetch_add(1); return; }
        g_real_reporter->fail(fail_string);
    }
};
MemoryLeakDetector* g_detector = 0;

long outstanding_now() { return (long) g_detector->totalMemoryLeaks(mem_leak_period_all); }

inline unsigned char pattern_of(unsigned label) { return (unsigned char) ((label * 31u + 7u) & 0xffu); }

inline void fill(unsigned label) { if (g_ptr[label]) memset(g_ptr[label], pattern_of(label), g_size[label]); }

inline void verify(unsigned label, unsigned n) {
    const unsigned char* p = (const unsigned char*) g_ptr[label];
    unsigned char want = pattern_of(label);
    for (unsigned i = 0; i < n; i++) if (p[i] != want) { g_pattern.fetch_add(1); return; }
}

// one script operation through the real entry points
void exec_op(const SOp& o) {
    unsigned l = o.label;
    t_cur_kind = o.kind;
    switch (o.kind) {
    case K_NEW:       g_ptr[l] = ::operator new(o.size); break;
    case K_NEWNT:     g_ptr[l] = ::operator new(o.size, std::nothrow); break;
    case K_NEWDBG:    g_ptr[l] = ::operator new(o.size, __FILE__, (size_t) __LINE__); break;
    case K_NEWDBGI:   g_ptr[l] = ::operator new(o.size, __FILE__, (int) __LINE__); break;
    case K_NEWARR:    g_ptr[l] = ::operator new[](o.size); break;
    case K_NEWARRNT:  g_ptr[l] = ::operator new[](o.size, std::nothrow); break;
    case K_NEWARRDBG: g_ptr[l] = ::operator new[](o.size, __FILE__, (int) __LINE__); break;
    case K_NEWARRDBGZ: g_ptr[l] = ::operator new[](o.size, __FILE__, (size_t) __LINE__); break;
    case K_MALLOC:    g_ptr[l] = cpputest_malloc_location(o.size, __FILE__, __LINE__); break;
    case K_MALLOCD:   g_ptr[l] = cpputest_malloc_location_with_leak_detection(o.size, __FILE__, __LINE__); break;
    case K_CALLOC: {
        g_ptr[l] = cpputest_calloc_location(1, o.size, __FILE__, __LINE__);
        const unsigned char* p = (const unsigned char*) g_ptr[l];
        for (unsigned i = 0; p && i < o.size; i++) if (p[i] != 0) { g_pattern.fetch_add(1); break; }
        break;
    }
    case K_REALLOC: {
        unsigned old = g_ptr[l] ? g_size[l] : 0;
        g_ptr[l] = cpputest_realloc_location(g_ptr[l], o.size, __FILE__, __LINE__);
        if (g_ptr[l]) verify(l, old < o.size ? old : o.size);
        break;
    }
    case K_DELETE:    verify(l, g_size[l]); ::operator delete(g_ptr[l]); g_ptr[l] = 0; return;
    case K_DELETESZ:  verify(l, g_size[l]); ::operator delete(g_ptr[l], (size_t) g_size[l]); g_ptr[l] = 0; return;
    case K_DELETENT:  verify(l, g_size[l]); ::operator delete(g_ptr[l], std::nothrow); g_ptr[l] = 0; return;
    case K_DELETEDBG: verify(l, g_size[l]); ::operator delete(g_ptr[l], __FILE__, (size_t) __LINE__); g_ptr[l] = 0; return;
    case K_DELETEDBGI: verify(l, g_size[l]); ::operator delete(g_ptr[l], __FILE__, (int) __LINE__); g_ptr[l] = 0; return;
    case K_DELARR:    verify(l, g_size[l]); ::operator delete[](g_ptr[l]); g_ptr[l] = 0; return;
    case K_DELARRSZ:  verify(l, g_size[l]); ::operator delete[](g_ptr[l], (size_t) g_size[l]); g_ptr[l] = 0; return;
    case K_DELARRNT:  verify(l, g_size[l]); ::operator delete[](g_ptr[l], std::nothrow); g_ptr[l] = 0; return;
    case K_DELARRDBG: verify(l, g_size[l]); ::operator delete[](g_ptr[l], __FILE__, (size_t) __LINE__); g_ptr[l] = 0; return;
    case K_DELARRDBGI: verify(l, g_size[l]); ::operator delete[](g_ptr[l], __FILE__, (int) __LINE__); g_ptr[l] = 0; return;
    case K_FREE:      verify(l, g_size[l]); cpputest_free_location(g_ptr[l], __FILE__, __LINE__); g_ptr[l] = 0; return;
    case K_GIVE:      g_given[l].store((int) o.to + 1, std::memory_order_release); return;
    case K_TAKE: {
        struct timespec t0; clock_gettime(CLOCK_MONOTONIC, &t0);
        unsigned long spins = 0;
        while (g_given[l].load(std::memory_order_acquire) != (int) o.to + 1) {
            if (++spins < 64) sched_yield(); else usleep(20);
            if ((spins & 1023) == 0) {
                struct timespec t1; clock_gettime(CLOCK_MONOTONIC, &t1);
                if (t1.tv_sec - t0.tv_sec > 8) { g_stuck.fetch_add(1); return; }
            }
        }
        g_given[l].store(0, std::memory_order_relaxed);
        return;
    }
    }
    // allocation forms arrive here
    g_size[l] = o.size;
    if (!g_ptr[l]) { g_pattern.fetch_add(1); return; }
    fill(l);
}

void* worker(void* arg) {
    int tid = (int) (intptr_t) arg;
    t_worker = 1;
    t_rng = (g_seed * 2654435761ULL) ^ ((unsigned long long) (tid + 1) * 0x9E3779B97F4A7C15ULL);
    if (t_rng == 0) t_rng = 1;
    while (!g_go.load(std::memory_order_acquire)) sched_yield();
    const SOp* s = g_script_ptr[tid];
    size_t n = g_script_len[tid];
    for (size_t i = 0; i < n; i++) { exec_op(s[i]); g_progress.fetch_add(1, std::memory_order_relaxed); }
    return 0;
}

// ---- misuse on the main thread
char g_bogus[64];
enum MisuseKind { M_FREE_BOGUS, M_DELETE_BOGUS, M_DELARR_BOGUS, M_REALLOC_BOGUS, M_NEW_FREE, M_MALLOC_DELETE,
                  M_NEW_DELARR, M_NEWARR_DELETE, M_CORRUPT_FREE, M_CORRUPT_DELETE, M_CORRUPT_DELARR, M_CORRUPT_REALLOC,
                  M_NEW_REALLOC, M_NEWARR_REALLOC, M_NEWARR_FREE, M_MALLOC_DELARR, M_NONE };
const char* const MISUSE_NAMES[] = { "free_bogus", "delete_bogus", "delarr_bogus", "realloc_bogus", "new_free", "malloc_delete",
                                     "new_delarr", "newarr_delete", "corrupt_free", "corrupt_delete", "corrupt_delarr", "corrupt_realloc",
                                     "new_realloc", "newarr_realloc", "newarr_free", "malloc_delarr" };

volatile int g_misuse_returned = 0;

void do_misuse(void* arg) {
    int kind = *(int*) arg;
    char* p = 0;
    switch (kind) {
    case M_FREE_BOGUS:     cpputest_free_location(g_bogus, __FILE__, __LINE__); break;
    case M_DELETE_BOGUS:   ::operator delete((void*) g_bogus); break;
    case M_DELARR_BOGUS:   ::operator delete[]((void*) g_bogus); break;
    case M_REALLOC_BOGUS:  cpputest_realloc_location(g_bogus, 10, __FILE__, __LINE__); break;
    case M_NEW_FREE:       p = (char*) ::operator new(16); cpputest_free_location(p, __FILE__, __LINE__); break;
    case M_MALLOC_DELETE:  p = (char*) cpputest_malloc_location(16, __FILE__, __LINE__); ::operator delete((void*) p); break;
    case M_NEW_DELARR:     p = (char*) ::operator new(16); ::operator delete[]((void*) p); break;
    case M_NEWARR_DELETE:  p = (char*) ::operator new[](16); ::operator delete((void*) p); break;
    case M_CORRUPT_FREE:   p = (char*) cpputest_malloc_location(16, __FILE__, __LINE__); p[16] = 'x'; cpputest_free_location(p, __FILE__, __LINE__); break;
    case M_CORRUPT_DELETE: p = (char*) ::operator new(16); p[16] = 'x'; ::operator delete((void*) p); break;
    case M_CORRUPT_DELARR: p = (char*) ::operator new[](16); p[16] = 'x'; ::operator delete[]((void*) p); break;
    case M_CORRUPT_REALLOC: p = (char*) cpputest_malloc_location(16, __FILE__, __LINE__); p[16] = 'x'; cpputest_realloc_location(p, 32, __FILE__, __LINE__); break;
    case M_NEW_REALLOC:    p = (char*) ::operator new(16); cpputest_realloc_location(p, 32, __FILE__, __LINE__); break;
    case M_NEWARR_REALLOC: p = (char*) ::operator new[](16); cpputest_realloc_location(p, 32, __FILE__, __LINE__); break;
    case M_NEWARR_FREE:    p = (char*) ::operator new[](16); cpputest_free_location(p, __FILE__, __LINE__); break;
    case M_MALLOC_DELARR:  p = (char*) cpputest_malloc_location_with_leak_detection(16, __FILE__, __LINE__); ::operator delete[]((void*) p); break;
    default: break;
    }
    g_misuse_returned = 1;      // the report did not leave the scope
}

std::atomic<int> g_probe_done(0);
void* probe(void*) {
    void* p = ::operator new(8);
    ::operator delete(p);
    void* q = cpputest_malloc_location(8, __FILE__, __LINE__);
    cpputest_free_location(q, __FILE__, __LINE__);
    g_probe_done.store(1, std::memory_order_release);
    return 0;
}

// the NEXT allocation after a misuse report, in a helper thread, under a 2 second deadline
void probe_next_allocation() {
    g_probe_done.store(0);
    pthread_t th;
    pthread_create(&th, 0, probe, 0);
    bool done = false;
    for (int k = 0; k < 2000 && !done; k++) {
        usleep(1000);
        g_progress.fetch_add(1, std::memory_order_relaxed);
        done = g_probe_done.load(std::memory_order_acquire) == 1;
    }
    if (!done) {
        vh::emit("next hang");
        fflush(stdout); fflush(stderr);
        _exit(0);               // the lock is held for ever: nothing after this can run
    }
    pthread_join(th, 0);
}

// The real JUnit output; only the three file seams are stubbed.  printCurrentTestStarted / printFailure /
// printCurrentGroupEnded are the library's: they allocate and release result nodes and the copy of the failure
// through operator new / delete, i.e. through whatever overloads are switched on.
class QuietJUnitOutput : public JUnitTestOutput {
public:
    long failures_written;
    QuietJUnitOutput() : failures_written(0) {}
protected:
    virtual void openFileForWrite(const SimpleString&) CPPUTEST_OVERRIDE {}
    virtual void writeToFile(const SimpleString& buffer) CPPUTEST_OVERRIDE {
        for (const char* p = strstr(buffer.asCharString(), "<failure"); p; p = strstr(p + 1, "<failure")) failures_written++;
    }
    virtual void closeFile() CPPUTEST_OVERRIDE {}
};

class MisuseFunction : public ExecFunction {
public:
    int kind;
    virtual void exec() CPPUTEST_OVERRIDE { do_misuse(&kind); }
};

const vh::Case* g_case = 0;
} // namespace

// ---- ThreadSanitizer report hook: one canonical observation line per report (the process runs with
// halt_on_error=0, so the case finishes, every other observation is still made, and the child exits with 79)
extern "C" {
int __tsan_get_report_data(void* report, const char** description, int* count, int* stack_count, int* mop_count,
                           int* loc_count, int* mutex_count, int* thread_count, int* unique_tid_count, void** sleep_trace,
                           unsigned long trace_size);
int __tsan_get_report_mop(void* report, unsigned long idx, int* tid, void** addr, int* size, int* write, int* atomic,
                          void** trace, unsigned long trace_size);
int __tsan_get_report_loc(void* report, unsigned long idx, const char** type, void** addr, unsigned long* start,
                          unsigned long* size, int* tid, int* fd, int* suppressable, void** trace, unsigned long trace_size);
void __sanitizer_symbolize_global(const void* data_ptr, const char* fmt, char* out_buf, unsigned long out_buf_size);
void __sanitizer_symbolize_pc(void* pc, const char* fmt, char* out_buf, unsigned long out_buf_size);

void __tsan_on_report(void* report) {
    const char* desc = "?"; int count = 0, stacks = 0, mops = 0, locs = 0, mutexes = 0, threads = 0, utids = 0;
    void* sleep_trace[4] = { 0, 0, 0, 0 };
    __tsan_get_report_data(report, &desc, &count, &stacks, &mops, &locs, &mutexes, &threads, &utids, sleep_trace, 4);
    char where[128]; where[0] = 0;
    char func[128]; func[0] = 0;
    const char* loctype = "noloc";
    if (locs > 0) {
        void* addr = 0; unsigned long start = 0, size = 0; int tid = 0, fd = 0, supp = 0; void* tr[4] = { 0, 0, 0, 0 };
        __tsan_get_report_loc(report, 0, &loctype, &addr, &start, &size, &tid, &fd, &supp, tr, 4);
        if (loctype && strcmp(loctype, "global") == 0) __sanitizer_symbolize_global(addr, "%g", where, sizeof(where));
    }
    if (mops > 0) {
        int tid = 0, size = 0, write = 0, atomic = 0; void* addr = 0; void* tr[8] = { 0, 0, 0, 0, 0, 0, 0, 0 };
        __tsan_get_report_mop(report, 0, &tid, &addr, &size, &write, &atomic, tr, 8);
        if (tr[0]) __sanitizer_symbolize_pc(tr[0], "%f", func, sizeof(func));
    }
    for (char* p = where; *p; p++) if (*p == ' ' || *p == '\n') *p = '_';
    for (char* p = func; *p; p++) if (*p == ' ' || *p == '\n') *p = '_';
    char line[400];
    int n = snprintf(line, sizeof(line), "tsan-race %s %s %s %s\n", desc ? desc : "?", loctype ? loctype : "?",
                     where[0] ? where : "-", func[0] ? func : "-");
    fflush(stdout);
    if (n > 0) { ssize_t r = write(1, line, (size_t) n); (void) r; }
}
}

namespace {


const char* const KIND_NAMES[] = { "new", "newnt", "newdbg", "newdbgi", "newarr", "newarrnt", "newarrdbg", "newarrdbgz", "malloc", "calloc",
                                   "mallocd", "realloc", "delete", "deletesz", "deletent", "deletedbg", "deletedbgi", "delarr", "delarrsz",
                                   "delarrnt", "delarrdbg", "delarrdbgi", "free", "give", "take" };

bool parse_label(const std::string& s, unsigned& out) {
    if (s.size() < 2 || s[0] != 'b') return false;
    unsigned long v = 0;
    for (size_t i = 1; i < s.size(); i++) { if (s[i] < '0' || s[i] > '9') return false; v = v * 10 + (unsigned long) (s[i] - '0'); if (v >= MAXL) return false; }
    out = (unsigned) v;
    return true;
}

int alloc_kind(const std::string& w, int& fam) {
    if (w == "new") { fam = F_NEW; return K_NEW; }
    if (w == "newnt") { fam = F_NEW; return K_NEWNT; }
    if (w == "newdbg") { fam = F_NEW; return K_NEWDBG; }
    if (w == "newdbgi") { fam = F_NEW; return K_NEWDBGI; }
    if (w == "newarrdbgz") { fam = F_ARR; return K_NEWARRDBGZ; }
    if (w == "newarr") { fam = F_ARR; return K_NEWARR; }
    if (w == "newarrnt") { fam = F_ARR; return K_NEWARRNT; }
    if (w == "newarrdbg") { fam = F_ARR; return K_NEWARRDBG; }
    if (w == "malloc") { fam = F_MALLOC; return K_MALLOC; }
    if (w == "calloc") { fam = F_MALLOC; return K_CALLOC; }
    if (w == "mallocd") { fam = F_MALLOC; return K_MALLOCD; }
    return -1;
}

int release_kind(const std::string& w, int& fam) {
    static const char* const names[] = { "delete", "deletesz", "deletent", "deletedbg", "deletedbgi",
                                         "delarr", "delarrsz", "delarrnt", "delarrdbg", "delarrdbgi", "free" };
    static const int kinds[] = { K_DELETE, K_DELETESZ, K_DELETENT, K_DELETEDBG, K_DELETEDBGI,
                                 K_DELARR, K_DELARRSZ, K_DELARRNT, K_DELARRDBG, K_DELARRDBGI, K_FREE };
    for (int i = 0; i < 11; i++) if (w == names[i]) { fam = i < 5 ? F_NEW : i < 10 ? F_ARR : F_MALLOC; return kinds[i]; }
    return -1;
}

void body() {
    const vh::Case& c = *g_case;
    int nthreads = 0;
    int depth = 0;              // open saveAndDisable scopes
    long outstanding = 0;       // cumulative, relative: sum of the deltas measured tightly around each phase
    size_t det_ops = 0, all_ops = 0;
    for (unsigned i = 0; i < MAXL; i++) { g_ptr[i] = 0; g_size[i] = 0; g_family[i] = F_NONE; g_owner[i] = -1; g_transit[i] = -1; g_given[i].store(0); }
    for (int t = 0; t < MAXT; t++) g_script[t].reserve(4096);

    for (size_t i = 0; i < c.ops.size(); i++) {
        const vh::Words& w = c.ops[i];
        g_progress.fetch_add(1, std::memory_order_relaxed);
        if (w[0] == "fresh" && w.size() == 1 && i == 0 && g_fresh_done) {
            vh::emit_op("fresh");       // done in run_case, before the first tracked allocation of this process
            vh::emit("overloaded %d", MemoryLeakWarningPlugin::areNewDeleteOverloaded() ? 1 : 0);
        }
        else if (w[0] == "save" && w.size() == 1) {
            vh::emit_op("save");
            MemoryLeakWarningPlugin::saveAndDisableNewDeleteOverloads();
            depth++;
            vh::emit("overloaded %d", MemoryLeakWarningPlugin::areNewDeleteOverloaded() ? 1 : 0);
        }
        else if (w[0] == "restore" && w.size() == 1 && depth > 0) {
            vh::emit_op("restore");
            MemoryLeakWarningPlugin::restoreNewDeleteOverloads();
            depth--;
            vh::emit("overloaded %d", MemoryLeakWarningPlugin::areNewDeleteOverloaded() ? 1 : 0);
        }
        else if (depth > 0) vh::emit("> skip");      // inside a save scope the overloads are off: nothing is run
        else if (w[0] == "on" && w.size() == 1) {
            vh::emit_op("on");
            MemoryLeakWarningPlugin::turnOnThreadSafeNewDeleteOverloads();
            g_on = true;
            vh::emit("overloaded %d", MemoryLeakWarningPlugin::areNewDeleteOverloaded() ? 1 : 0);
        }
        else if (w[0] == "off" && w.size() == 1) {
            vh::emit_op("off");
            MemoryLeakWarningPlugin::turnOnDefaultNotThreadSafeNewDeleteOverloads();
            g_on = false;
            vh::emit("overloaded %d", MemoryLeakWarningPlugin::areNewDeleteOverloaded() ? 1 : 0);
        }
        else if (w[0] == "threads" && w.size() == 3 && vh::to_u64(w[1]) >= 1 && vh::to_u64(w[1]) <= MAXT) {
            nthreads = (int) vh::to_u64(w[1]);
            g_seed = (unsigned long) vh::to_u64(w[2]);
            for (int t = 0; t < MAXT; t++) g_script[t].clear();
            det_ops = 0; all_ops = 0;
            vh::emit("> threads %d %lu", nthreads, g_seed);
        }
        else if (w[0] == "t" && w.size() >= 4 && nthreads > 0) {
            int tid = (int) vh::to_u64(w[1]);
            unsigned l = 0; int fam = 0;
            bool ok = w[1].find_first_not_of("0123456789") == std::string::npos && tid < nthreads && parse_label(w[3], l)
                      && g_script[tid].size() < 4000;
            SOp o; o.kind = 0; o.label = (unsigned short) l; o.size = 0; o.to = 0;
            int k = ok ? alloc_kind(w[2], fam) : -1;
            if (!ok) { }
            else if (k >= 0) {
                ok = w.size() == 5 && g_owner[l] < 0 && g_transit[l] < 0 && vh::to_u64(w[4]) >= 1 && vh::to_u64(w[4]) <= 100000;
                if (ok) { o.kind = (unsigned char) k; o.size = (unsigned) vh::to_u64(w[4]); g_owner[l] = tid; g_family[l] = (unsigned char) fam; }
            }
            else if (w[2] == "realloc") {
                ok = w.size() == 5 && g_transit[l] < 0 && (g_owner[l] < 0 || (g_owner[l] == tid && g_family[l] == F_MALLOC))
                     && vh::to_u64(w[4]) >= 1 && vh::to_u64(w[4]) <= 100000;
                if (ok) { o.kind = K_REALLOC; o.size = (unsigned) vh::to_u64(w[4]); g_owner[l] = tid; g_family[l] = F_MALLOC; }
            }
            else if (release_kind(w[2], fam) >= 0) {
                int rk = release_kind(w[2], fam);
                ok = w.size() == 4 && g_owner[l] == tid && g_family[l] == fam;
                if (ok) { o.kind = (unsigned char) rk; g_owner[l] = -1; g_family[l] = F_NONE; }
            }
            else if (w[2] == "give") {
                int to = w.size() == 5 ? (int) vh::to_u64(w[4]) : -1;
                ok = w.size() == 5 && w[4].find_first_not_of("0123456789") == std::string::npos && g_owner[l] == tid && to < nthreads && to != tid;
                if (ok) { o.kind = K_GIVE; o.to = (unsigned char) to; g_owner[l] = -1; g_transit[l] = to; }
            }
            else if (w[2] == "take") {
                ok = w.size() == 4 && g_transit[l] == tid;
                if (ok) { o.kind = K_TAKE; o.to = (unsigned char) tid; g_transit[l] = -1; g_owner[l] = tid; }
            }
            else ok = false;
            if (ok) {
                g_script[tid].push_back(o);
                all_ops++;
                if (o.kind != K_GIVE && o.kind != K_TAKE) det_ops++;
                vh::emit_op(c.raw[i]);
            }
            else vh::emit("> skip");
        }
        else if (((w[0] == "run" && w.size() == 1) || (w[0] == "runm" && w.size() == 2 && g_on)) && nthreads > 0 && (g_on || nthreads == 1)) {
            int mkind = M_NONE;
            if (w[0] == "runm") {
                for (int k = 0; k < M_NONE; k++) if (w[1] == MISUSE_NAMES[k]) mkind = k;
                if (mkind == M_NONE) { vh::emit("> skip"); continue; }
            }
            vh::emit_op(c.raw[i]);
            size_t failures_before = vh::g_fixture->getFailureCount();
            int jumped = 0;
            pthread_t th[MAXT];
            for (int t = 0; t < nthreads; t++) { g_script_ptr[t] = g_script[t].empty() ? 0 : &g_script[t][0]; g_script_len[t] = g_script[t].size(); }
            g_locks = 0; g_unlocks = 0; g_overlap = 0; g_unlocked = 0; g_reports = 0; g_pattern = 0; g_stuck = 0;
            for (int k = 0; k < 32; k++) g_unlocked_kind[k] = 0;
            g_go.store(0);
            long before = outstanding_now();
            g_concurrent.store(1);
            for (int t = 0; t < nthreads; t++) pthread_create(&th[t], 0, worker, (void*) (intptr_t) t);
            g_go.store(1, std::memory_order_release);
            if (mkind != M_NONE) {
                // the test's own thread misuses the allocator while the workers are inside the wrappers
                usleep((useconds_t) (g_seed % 300));
                g_misuse_returned = 0;
                jumped = PlatformSpecificSetJmp(do_misuse, &mkind) == 0;
                g_progress.fetch_add(1, std::memory_order_relaxed);
            }
            for (int t = 0; t < nthreads; t++) pthread_join(th[t], 0);
            g_concurrent.store(0);
            long after = outstanding_now();
            outstanding += after - before;
            vh::emit("ops %lu", (unsigned long) all_ops);
            for (int t = 0; t < nthreads; t++) {
                unsigned long held = 0;
                for (unsigned l = 0; l < MAXL; l++) if (g_owner[l] == t && g_ptr[l]) held++;
                vh::emit("held %d %lu", t, held);
            }
            vh::emit("outstanding %ld", outstanding);
            vh::emit("reports %ld", g_reports.load());
            vh::emit("locks %ld", g_locks.load());
            vh::emit("unlocks %ld", g_unlocks.load());
            vh::emit("unlocked %ld", g_unlocked.load());
            for (int k = 0; k <= K_FREE; k++) if (g_unlocked_kind[k].load()) vh::emit("unlocked-at %s %ld", KIND_NAMES[k], g_unlocked_kind[k].load());
            vh::emit("overlap %ld", g_overlap.load());
            vh::emit("pattern %ld", g_pattern.load());
            if (g_stuck.load()) vh::emit("stuck %ld", g_stuck.load());
            if (mkind != M_NONE) {
                vh::emit("reported %lu", (unsigned long) (vh::g_fixture->getFailureCount() - failures_before));
                vh::emit("left-by-jump %d", jumped);
            }
            (void) det_ops;
            for (int t = 0; t < MAXT; t++) g_script[t].clear();
            all_ops = 0; det_ops = 0;
        }
        else if (w[0] == "cleanup" && w.size() == 1) {
            vh::emit_op("cleanup");
            g_reports = 0;
            long before = outstanding_now();
            g_concurrent.store(1);
            g_count_only.store(1);      // reports are counted, not raised, during the sweep
            for (unsigned l = 0; l < MAXL; l++) {
                if (!g_ptr[l]) continue;
                g_progress.fetch_add(1, std::memory_order_relaxed);
                if (g_family[l] == F_NEW) ::operator delete(g_ptr[l]);
                else if (g_family[l] == F_ARR) ::operator delete[](g_ptr[l]);
                else cpputest_free_location(g_ptr[l], __FILE__, __LINE__);
                g_ptr[l] = 0; g_owner[l] = -1; g_transit[l] = -1; g_family[l] = F_NONE; g_given[l].store(0);
            }
            g_concurrent.store(0);
            g_count_only.store(0);
            long after = outstanding_now();
            outstanding += after - before;
            vh::emit("outstanding %ld", outstanding);
            vh::emit("reports %ld", g_reports.load());
        }
        else if (w[0] == "misuse" && w.size() == 3 && w[2] == "junit") {
            int kind = M_NONE;
            for (int k = 0; k < M_NONE; k++) if (w[1] == MISUSE_NAMES[k]) kind = k;
            if (kind == M_NONE) { vh::emit("> skip"); continue; }
            vh::emit_op(c.raw[i]);
            g_misuse_returned = 0;
            long before = outstanding_now();
            long recorded = 0;
            g_short_deadline.store(1);
            g_progress.fetch_add(1, std::memory_order_relaxed);
            {
                QuietJUnitOutput out;
                TestResult res(out);
                ExecFunctionTestShell shell;
                MisuseFunction fn;
                fn.kind = kind;
                shell.testFunction_ = &fn;
                res.testsStarted();
                res.currentGroupStarted(&shell);
                res.currentTestStarted(&shell);
                g_locks = 0; g_unlocks = 0;
                shell.runOneTest(NullTestPlugin::instance(), res);     // the report leaves do_misuse by longjmp into Utest::run
                vh::emit("reported %lu", (unsigned long) res.getFailureCount());
                vh::emit("left-by-jump %d", g_misuse_returned ? 0 : 1);
                vh::emit("lockstate %s", g_locks.load() == g_unlocks.load() ? "free" : g_locks.load() > g_unlocks.load() ? "held" : "over-released");
                probe_next_allocation();
                vh::emit("next done");
                res.currentTestEnded(&shell);
                res.currentGroupEnded(&shell);                         // writes the (stubbed) file, deletes nodes and the failure copy
                res.testsEnded();
                recorded = out.failures_written;
                shell.testFunction_ = 0;
            }
            g_short_deadline.store(0);
            long after = outstanding_now();
            outstanding += after - before;
            vh::emit("recorded %ld", recorded);
            vh::emit("outstanding %ld", outstanding);
        }
        else if (w[0] == "misuse" && w.size() == 2) {
            int kind = M_NONE;
            for (int k = 0; k < M_NONE; k++) if (w[1] == MISUSE_NAMES[k]) kind = k;
            if (kind == M_NONE) { vh::emit("> skip"); continue; }
            vh::emit_op(c.raw[i]);
            size_t failures_before = vh::g_fixture->getFailureCount();
            g_locks = 0; g_unlocks = 0;
            g_misuse_returned = 0;
            long before = outstanding_now();
            int jumped = PlatformSpecificSetJmp(do_misuse, &kind) == 0;
            vh::emit("reported %lu", (unsigned long) (vh::g_fixture->getFailureCount() - failures_before));
            vh::emit("left-by-jump %d", jumped);
            vh::emit("lockstate %s", g_locks.load() == g_unlocks.load() ? "free" : g_locks.load() > g_unlocks.load() ? "held" : "over-released");
            probe_next_allocation();
            long after = outstanding_now();
            outstanding += after - before;
            vh::emit("next done");
            vh::emit("outstanding %ld", outstanding);
        }
        else vh::emit("> skip");
    }
    while (depth > 0) { MemoryLeakWarningPlugin::restoreNewDeleteOverloads(); depth--; }
    if (g_on) { MemoryLeakWarningPlugin::turnOnDefaultNotThreadSafeNewDeleteOverloads(); g_on = false; }
}

// Per-process start (every case is a fresh child of a parent that never made a tracked allocation): switch the
// overloads on - thread-safe first in the `fresh` variant -, then the FIRST getGlobalDetector() call of the process
// (its internal saveAndDisable/restore cycle), then install a real MemoryLeakDetector whose reporter is ours
// (built inside one more save/restore cycle, as the library does for its own).
void setup_process(bool fresh) {
    if (fresh) { MemoryLeakWarningPlugin::turnOnThreadSafeNewDeleteOverloads(); g_on = true; g_fresh_done = true; }
    else MemoryLeakWarningPlugin::turnOnDefaultNotThreadSafeNewDeleteOverloads();
    MemoryLeakWarningPlugin::getGlobalDetector();
    g_real_reporter = MemoryLeakWarningPlugin::getGlobalFailureReporter();
    MemoryLeakWarningPlugin::saveAndDisableNewDeleteOverloads();
    static SwitchReporter reporter;
    g_detector = new MemoryLeakDetector(&reporter);
    MemoryLeakWarningPlugin::restoreNewDeleteOverloads();
    g_detector->enable();
    MemoryLeakWarningPlugin::setGlobalDetector(g_detector, &reporter);
}

// watchdog: no operation of any thread completed for 6 s = some thread is blocked for ever (typically on the
// detector lock) or loops inside the detector.  One observation line, then the case ends (the threads cannot be
// joined).  Far below the per-case alarm, so that a tree in which every case deadlocks is still checked quickly.
void* watchdog(void*) {
    long last = -1; int idle_ms = 0;
    for (;;) {
        usleep(50000);
        long p = g_progress.load(std::memory_order_relaxed);
        if (p != last) { last = p; idle_ms = 0; continue; }
        idle_ms += 50;
        if (idle_ms >= (g_short_deadline.load(std::memory_order_relaxed) ? 2000 : 6000)) {
            static const char msg[] = "stalled\n";
            ssize_t r = write(1, msg, sizeof(msg) - 1); (void) r;
            _exit(0);
        }
    }
    return 0;
}

// deadline reached: say where the main thread is (goes to the replay's stderr section), then die by SIGALRM as usual
void on_alarm(int) {
    static const char msg[] = "=== deadline reached; backtrace of the interrupted thread:\n";
    ssize_t r = write(2, msg, sizeof(msg) - 1); (void) r;
    void* frames[48];
    int n = backtrace(frames, 48);
    backtrace_symbols_fd(frames, n, 2);
    signal(SIGALRM, SIG_DFL);
    raise(SIGALRM);
}

void run_case(const vh::Case& c) {
    g_case = &c;
    signal(SIGALRM, on_alarm);
    setup_process(g_pristine && !c.ops.empty() && c.ops[0].size() == 1 && c.ops[0][0] == "fresh");
    pthread_t wd;
    pthread_create(&wd, 0, watchdog, 0);
    pthread_detach(wd);
    vh::in_fixture(body);
}

} // namespace

int main() {
    // The parent only reads the cases and forks: its own allocations must not be tracked (a child may switch the
    // thread-safe overloads on before ITS first tracked allocation), so the overloads go off before anything else.
    g_pristine = MemoryLeakWarningPlugin::getGlobalFailureReporter() == 0;
    MemoryLeakWarningPlugin::turnOffNewDeleteOverloads();
    real_lock = PlatformSpecificMutexLock;       PlatformSpecificMutexLock = my_lock;
    real_unlock = PlatformSpecificMutexUnlock;   PlatformSpecificMutexUnlock = my_unlock;
    real_malloc = PlatformSpecificMalloc;        PlatformSpecificMalloc = my_malloc;
    real_realloc = PlatformSpecificRealloc;      PlatformSpecificRealloc = my_realloc;
    real_free = PlatformSpecificFree;            PlatformSpecificFree = my_free;
    real_memset = PlatformSpecificMemset;        PlatformSpecificMemset = my_memset;
    return vh::run_all(run_case);
}
