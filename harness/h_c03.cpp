// C03 correspondence harness: every op line is ONE invocation of a real check macro (C++ macros of
// UtestMacros.h and the C entry macros of TestHarness_c.h) as the body of a test run inside a fresh
// TestTestingFixture.  Observation per op:   r <failures recorded> <checks counted>
//
// ops (values of integer operands are decimal, doubles are 16 hex digits of the bit pattern,
//      strings/blocks are hex or `null`):
//   int  <MACRO> <te> <ve> <ta> <va>            integer equality macros, C++ and C entry points
//   enum <tu> <te> <ve> <ta> <va>               ENUMS_EQUAL_TYPE(tu, (enum:te) ve, (enum:ta) va); tu=i32 uses ENUMS_EQUAL_INT
//   bool <MACRO> <t> <v>                        CHECK CHECK_TRUE CHECK_FALSE CHECK_C
//   boolx <MACRO> <op> <a> <b>                  the same eight macros on a COMPOUND condition over two ints: or `a || b`, and `a && b`,
//                                               eq `a == b`, ne `a != b`, lt `a < b`, cond `a ? b : 0` (top-level operator binds weaker than unary !)
//   dbl  <MACRO> <e> <a> <tol>                  DOUBLES_EQUAL C_REAL CHECK_EQUAL(doubles; tol unused)
//   dcmp <relop> <e> <a>                        CHECK_COMPARE on doubles
//   str  <MACRO> <e> <a> <n>                    STRCMP_EQUAL STRNCMP_EQUAL STRCMP_NOCASE_EQUAL STRCMP_CONTAINS
//                                               STRCMP_NOCASE_CONTAINS C_STRING
//   mem  <MACRO> <e> <a> <len>                  MEMCMP_EQUAL C_MEMCMP
//   bits <MACRO> <te> <ve> <ta> <va> <tm> <vm>  BITS_EQUAL C_BITS
//   ptr  <MACRO> <e> <a>                        POINTERS_EQUAL FUNCTIONPOINTERS_EQUAL C_POINTER CHECK_EQUAL
//   cmp  <relop> <te> <ve> <ta> <va>            CHECK_COMPARE on integers
//   fail <MACRO>                                FAIL FAIL_TEST C_FAIL C_FAIL_TEXT
//   zero <MACRO> <t> <v>                        CHECK_EQUAL_ZERO(_TEXT)
//   throws <nothing|expected|other>             CHECK_THROWS(int, expr)
//   enumt <tu> <te> <ve> <ta> <va>              ENUMS_EQUAL_INT_TEXT (tu=i32) / ENUMS_EQUAL_TYPE_TEXT (tu=u16); echoed as `enum`
//   seq <step>...                               several check statements in one test body (stop at the first failure)
//   seqc <step>...                              the same with crash-on-fail terminators (-f mode), crash method replaced by a counter
//   evals <MACRO> <e0> <estep> <a0> <astep>     operands that change with every evaluation: evaluation counts, warnings
// every macro also in its _TEXT form (name + _TEXT)
#include "fixture.h"
#include "CppUTest/TestHarness_c.h"
#include <type_traits>

namespace {

struct Result { size_t failures; size_t checks; };

// runs fn() as the body of a test in a fresh fixture (not a template: keeps the many typed
// instantiations below small)
__attribute__((noinline)) Result run_fn(void (*fn)()) {
    TestTestingFixture fixture;
    fixture.setTestFunction(fn);
    fixture.runAllTests();
    Result r;
    r.failures = fixture.getFailureCount();
    r.checks = fixture.getCheckCount();
    return r;
}

struct BodyBase { virtual void call() = 0; virtual ~BodyBase() {} };
template <class F> struct Body : BodyBase { F f; Body(F g) : f(g) {} void call() { f(); } };
BodyBase* g_body = 0;
void trampoline() { g_body->call(); }
__attribute__((noinline)) Result run_body(BodyBase& b) { g_body = &b; Result r = run_fn(trampoline); g_body = 0; return r; }
// for the untyped ops: a lambda as test body
template <class F> Result run(F f) { Body<F> b(f); return run_body(b); }

void report(const Result& r) { vh::emit("r %lu %lu", (unsigned long) r.failures, (unsigned long) r.checks); }

// ---- typed integer operands -------------------------------------------------------------------
// The operand values live in three 8 byte slots; a typed test body reads them back at its types.
unsigned char g_slot[3][8];
template <class T> T slot(int i) { T v; memcpy(&v, g_slot[i], sizeof(T)); return v; }

int type_index(const std::string& t) {
    static const char* names[] = { "i8", "u8", "i16", "u16", "i32", "u32", "i64", "u64" };
    for (int i = 0; i < 8; i++) if (t == names[i]) return i;
    return -1;
}
template <int I> struct TypeOf;
template <> struct TypeOf<0> { typedef signed char type; };
template <> struct TypeOf<1> { typedef unsigned char type; };
template <> struct TypeOf<2> { typedef short type; };
template <> struct TypeOf<3> { typedef unsigned short type; };
template <> struct TypeOf<4> { typedef int type; };
template <> struct TypeOf<5> { typedef unsigned int type; };
template <> struct TypeOf<6> { typedef long type; };
template <> struct TypeOf<7> { typedef unsigned long type; };

template <class T> std::string store_typed(int slot_no, const std::string& s) {
    T v;
    if (std::is_signed<T>::value) v = (T) strtoll(s.c_str(), 0, 10); else v = (T) strtoull(s.c_str(), 0, 10);
    memset(g_slot[slot_no], 0, 8);
    memcpy(g_slot[slot_no], &v, sizeof(T));
    char buf[40];
    if (std::is_signed<T>::value) snprintf(buf, sizeof buf, "%lld", (long long) v);
    else snprintf(buf, sizeof buf, "%llu", (unsigned long long) v);
    return buf;
}
// parses `s` at the type with index `ti`, stores it in the slot, returns the canonical decimal text
std::string store(int slot_no, int ti, const std::string& s) {
    switch (ti) {
    case 0: return store_typed<signed char>(slot_no, s);
    case 1: return store_typed<unsigned char>(slot_no, s);
    case 2: return store_typed<short>(slot_no, s);
    case 3: return store_typed<unsigned short>(slot_no, s);
    case 4: return store_typed<int>(slot_no, s);
    case 5: return store_typed<unsigned int>(slot_no, s);
    case 6: return store_typed<long>(slot_no, s);
    default: return store_typed<unsigned long>(slot_no, s);
    }
}

typedef void (*Fn0)();
// a typed test body: B<E, A>::call reads slot 0 as E and slot 1 as A
#define BODY2(NAME, STMT) \
    template <class E, class A> struct NAME { static void call() { E e = slot<E>(0); A a = slot<A>(1); STMT; } };
// same-type table: operand types (T, T) for the eight types
template <template <class, class> class B> Fn0 pick_same(int ti) {
    switch (ti) {
    case 0: return &B<signed char, signed char>::call;
    case 1: return &B<unsigned char, unsigned char>::call;
    case 2: return &B<short, short>::call;
    case 3: return &B<unsigned short, unsigned short>::call;
    case 4: return &B<int, int>::call;
    case 5: return &B<unsigned int, unsigned int>::call;
    case 6: return &B<long, long>::call;
    default: return &B<unsigned long, unsigned long>::call;
    }
}
// mixed pairs over { i8, u16, i32, u32, i64, u64 } (every promotion / conversion rank and sign once)
template <template <class, class> class B, class E> Fn0 pick_second(int ta) {
    switch (ta) {
    case 0: return &B<E, signed char>::call;
    case 3: return &B<E, unsigned short>::call;
    case 4: return &B<E, int>::call;
    case 5: return &B<E, unsigned int>::call;
    case 6: return &B<E, long>::call;
    case 7: return &B<E, unsigned long>::call;
    default: return 0;
    }
}
template <template <class, class> class B> Fn0 pick_pair(int te, int ta) {
    if (te == ta) return pick_same<B>(te);
    switch (te) {
    case 0: return pick_second<B, signed char>(ta);
    case 3: return pick_second<B, unsigned short>(ta);
    case 4: return pick_second<B, int>(ta);
    case 5: return pick_second<B, unsigned int>(ta);
    case 6: return pick_second<B, long>(ta);
    case 7: return pick_second<B, unsigned long>(ta);
    default: return 0;
    }
}
template <class U> struct En { enum type : U { zero = 0 }; };

BODY2(B_LONGS_EQUAL, LONGS_EQUAL(e, a))
BODY2(B_LONGS_EQUAL_TEXT, LONGS_EQUAL_TEXT(e, a, "text"))
BODY2(B_UNSIGNED_LONGS_EQUAL, UNSIGNED_LONGS_EQUAL(e, a))
BODY2(B_LONGLONGS_EQUAL, LONGLONGS_EQUAL(e, a))
BODY2(B_UNSIGNED_LONGLONGS_EQUAL, UNSIGNED_LONGLONGS_EQUAL(e, a))
BODY2(B_BYTES_EQUAL, BYTES_EQUAL(e, a))
BODY2(B_SIGNED_BYTES_EQUAL, SIGNED_BYTES_EQUAL(e, a))
BODY2(B_CHECK_EQUAL, CHECK_EQUAL(e, a))
BODY2(B_C_BOOL, CHECK_EQUAL_C_BOOL(e, a))
BODY2(B_C_INT, CHECK_EQUAL_C_INT(e, a))
BODY2(B_C_UINT, CHECK_EQUAL_C_UINT(e, a))
BODY2(B_C_LONG, CHECK_EQUAL_C_LONG(e, a))
BODY2(B_C_ULONG, CHECK_EQUAL_C_ULONG(e, a))
BODY2(B_C_LONGLONG, CHECK_EQUAL_C_LONGLONG(e, a))
BODY2(B_C_ULONGLONG, CHECK_EQUAL_C_ULONGLONG(e, a))
BODY2(B_C_CHAR, CHECK_EQUAL_C_CHAR(e, a))
BODY2(B_C_UBYTE, CHECK_EQUAL_C_UBYTE(e, a))
BODY2(B_C_SBYTE, CHECK_EQUAL_C_SBYTE(e, a))
BODY2(B_UNSIGNED_LONGS_EQUAL_TEXT, UNSIGNED_LONGS_EQUAL_TEXT(e, a, "text"))
BODY2(B_LONGLONGS_EQUAL_TEXT, LONGLONGS_EQUAL_TEXT(e, a, "text"))
BODY2(B_UNSIGNED_LONGLONGS_EQUAL_TEXT, UNSIGNED_LONGLONGS_EQUAL_TEXT(e, a, "text"))
BODY2(B_BYTES_EQUAL_TEXT, BYTES_EQUAL_TEXT(e, a, "text"))
BODY2(B_SIGNED_BYTES_EQUAL_TEXT, SIGNED_BYTES_EQUAL_TEXT(e, a, "text"))
BODY2(B_CHECK_EQUAL_TEXT, CHECK_EQUAL_TEXT(e, a, "text"))
BODY2(B_C_BOOL_TEXT, CHECK_EQUAL_C_BOOL_TEXT(e, a, "text"))
BODY2(B_C_INT_TEXT, CHECK_EQUAL_C_INT_TEXT(e, a, "text"))
BODY2(B_C_UINT_TEXT, CHECK_EQUAL_C_UINT_TEXT(e, a, "text"))
BODY2(B_C_LONG_TEXT, CHECK_EQUAL_C_LONG_TEXT(e, a, "text"))
BODY2(B_C_ULONG_TEXT, CHECK_EQUAL_C_ULONG_TEXT(e, a, "text"))
BODY2(B_C_LONGLONG_TEXT, CHECK_EQUAL_C_LONGLONG_TEXT(e, a, "text"))
BODY2(B_C_ULONGLONG_TEXT, CHECK_EQUAL_C_ULONGLONG_TEXT(e, a, "text"))
BODY2(B_C_CHAR_TEXT, CHECK_EQUAL_C_CHAR_TEXT(e, a, "text"))
BODY2(B_C_UBYTE_TEXT, CHECK_EQUAL_C_UBYTE_TEXT(e, a, "text"))
BODY2(B_C_SBYTE_TEXT, CHECK_EQUAL_C_SBYTE_TEXT(e, a, "text"))
BODY2(B_CMP_LT_TEXT, CHECK_COMPARE_TEXT(e, <, a, "text"))
BODY2(B_CHECK_TEXT, (void) a; CHECK_TEXT(e, "text"))
BODY2(B_CHECK_TRUE_TEXT, (void) a; CHECK_TRUE_TEXT(e, "text"))
BODY2(B_CHECK_FALSE_TEXT, (void) a; CHECK_FALSE_TEXT(e, "text"))
BODY2(B_CHECK_C_TEXT, (void) a; CHECK_C_TEXT(e, "text"))
BODY2(B_CHECK_EQUAL_ZERO, (void) e; CHECK_EQUAL_ZERO(a))
BODY2(B_CHECK_EQUAL_ZERO_TEXT, (void) e; CHECK_EQUAL_ZERO_TEXT(a, "text"))
BODY2(B_CMP_LT, CHECK_COMPARE(e, <, a))
BODY2(B_CMP_LE, CHECK_COMPARE(e, <=, a))
BODY2(B_CMP_GT, CHECK_COMPARE(e, >, a))
BODY2(B_CMP_GE, CHECK_COMPARE(e, >=, a))
BODY2(B_CMP_EQ, CHECK_COMPARE(e, ==, a))
BODY2(B_CMP_NE, CHECK_COMPARE(e, !=, a))
BODY2(B_CHECK, (void) a; CHECK(e))
BODY2(B_CHECK_TRUE, (void) a; CHECK_TRUE(e))
BODY2(B_CHECK_FALSE, (void) a; CHECK_FALSE(e))
BODY2(B_CHECK_C, (void) a; CHECK_C(e))
// enums: the operands are enumerations with underlying types E / A; slot 2 is not used
#define ENUMBODY(NAME, U) \
    template <class E, class A> struct NAME { static void call() { \
        typename En<E>::type e = (typename En<E>::type) slot<E>(0); typename En<A>::type a = (typename En<A>::type) slot<A>(1); \
        ENUMS_EQUAL_TYPE(U, e, a); } };
ENUMBODY(B_ENUM_I8, signed char)
ENUMBODY(B_ENUM_U8, unsigned char)
ENUMBODY(B_ENUM_I16, short)
ENUMBODY(B_ENUM_U16, unsigned short)
ENUMBODY(B_ENUM_U32, unsigned int)
ENUMBODY(B_ENUM_I64, long)
ENUMBODY(B_ENUM_U64, unsigned long)
template <class E, class A> struct B_ENUM_I32 { static void call() {
    typename En<E>::type e = (typename En<E>::type) slot<E>(0); typename En<A>::type a = (typename En<A>::type) slot<A>(1);
    ENUMS_EQUAL_INT(e, a); } };
template <class E, class A> struct B_ENUM_I32_TEXT { static void call() {
    typename En<E>::type e = (typename En<E>::type) slot<E>(0); typename En<A>::type a = (typename En<A>::type) slot<A>(1);
    ENUMS_EQUAL_INT_TEXT(e, a, "text"); } };
template <class E, class A> struct B_ENUM_U16_TEXT { static void call() {
    typename En<E>::type e = (typename En<E>::type) slot<E>(0); typename En<A>::type a = (typename En<A>::type) slot<A>(1);
    ENUMS_EQUAL_TYPE_TEXT(unsigned short, e, a, "text"); } };
// masked bits: operands (T, T), the mask in slot 2 at type M
#define BITSBODY(NAME, M, STMT) \
    template <class E, class A> struct NAME { static void call() { E e = slot<E>(0); A a = slot<A>(1); M m = slot<M>(2); STMT; } };
BITSBODY(B_BITS_I32, int, BITS_EQUAL(e, a, m))
BITSBODY(B_BITS_U8, unsigned char, BITS_EQUAL(e, a, m))
BITSBODY(B_BITS_U64, unsigned long, BITS_EQUAL(e, a, m))
BITSBODY(B_BITS_TEXT_I32, int, BITS_EQUAL_TEXT(e, a, m, "text"))
BITSBODY(B_CBITS_TEXT_I32, int, CHECK_EQUAL_C_BITS_TEXT(e, a, m, "text"))
BITSBODY(B_BITS_TEXT_U8, unsigned char, BITS_EQUAL_TEXT(e, a, m, "text"))
BITSBODY(B_CBITS_TEXT_U8, unsigned char, CHECK_EQUAL_C_BITS_TEXT(e, a, m, "text"))
BITSBODY(B_BITS_TEXT_U64, unsigned long, BITS_EQUAL_TEXT(e, a, m, "text"))
BITSBODY(B_CBITS_TEXT_U64, unsigned long, CHECK_EQUAL_C_BITS_TEXT(e, a, m, "text"))
BITSBODY(B_CBITS_I32, int, CHECK_EQUAL_C_BITS(e, a, m))
BITSBODY(B_CBITS_U8, unsigned char, CHECK_EQUAL_C_BITS(e, a, m))
BITSBODY(B_CBITS_U64, unsigned long, CHECK_EQUAL_C_BITS(e, a, m))

// ---- op handlers ------------------------------------------------------------------------------
bool op_int(const vh::Words& w) {
    if (w.size() != 6) return false;
    int te = type_index(w[2]), ta = type_index(w[4]);
    if (te < 0 || ta < 0) return false;
    const std::string& m = w[1];
    Fn0 fn = 0;
    if (m == "CHECK_EQUAL") fn = pick_pair<B_CHECK_EQUAL>(te, ta);          // operand types interact: pairs
    else if (te != ta) fn = 0;                                               // each operand is converted on its own: (T, T)
    else if (m == "LONGS_EQUAL") fn = pick_same<B_LONGS_EQUAL>(te);
    else if (m == "LONGS_EQUAL_TEXT") fn = pick_same<B_LONGS_EQUAL_TEXT>(te);
    else if (m == "UNSIGNED_LONGS_EQUAL") fn = pick_same<B_UNSIGNED_LONGS_EQUAL>(te);
    else if (m == "LONGLONGS_EQUAL") fn = pick_same<B_LONGLONGS_EQUAL>(te);
    else if (m == "UNSIGNED_LONGLONGS_EQUAL") fn = pick_same<B_UNSIGNED_LONGLONGS_EQUAL>(te);
    else if (m == "BYTES_EQUAL") fn = pick_same<B_BYTES_EQUAL>(te);
    else if (m == "SIGNED_BYTES_EQUAL") fn = pick_same<B_SIGNED_BYTES_EQUAL>(te);
    else if (m == "C_BOOL") fn = pick_same<B_C_BOOL>(te);
    else if (m == "C_INT") fn = pick_same<B_C_INT>(te);
    else if (m == "C_UINT") fn = pick_same<B_C_UINT>(te);
    else if (m == "C_LONG") fn = pick_same<B_C_LONG>(te);
    else if (m == "C_ULONG") fn = pick_same<B_C_ULONG>(te);
    else if (m == "C_LONGLONG") fn = pick_same<B_C_LONGLONG>(te);
    else if (m == "C_ULONGLONG") fn = pick_same<B_C_ULONGLONG>(te);
    else if (m == "C_CHAR") fn = pick_same<B_C_CHAR>(te);
    else if (m == "C_UBYTE") fn = pick_same<B_C_UBYTE>(te);
    else if (m == "C_SBYTE") fn = pick_same<B_C_SBYTE>(te);
    else if (m == "UNSIGNED_LONGS_EQUAL_TEXT") fn = pick_same<B_UNSIGNED_LONGS_EQUAL_TEXT>(te);
    else if (m == "LONGLONGS_EQUAL_TEXT") fn = pick_same<B_LONGLONGS_EQUAL_TEXT>(te);
    else if (m == "UNSIGNED_LONGLONGS_EQUAL_TEXT") fn = pick_same<B_UNSIGNED_LONGLONGS_EQUAL_TEXT>(te);
    else if (m == "BYTES_EQUAL_TEXT") fn = pick_same<B_BYTES_EQUAL_TEXT>(te);
    else if (m == "SIGNED_BYTES_EQUAL_TEXT") fn = pick_same<B_SIGNED_BYTES_EQUAL_TEXT>(te);
    else if (m == "CHECK_EQUAL_TEXT") fn = pick_same<B_CHECK_EQUAL_TEXT>(te);
    else if (m == "C_BOOL_TEXT") fn = pick_same<B_C_BOOL_TEXT>(te);
    else if (m == "C_INT_TEXT") fn = pick_same<B_C_INT_TEXT>(te);
    else if (m == "C_UINT_TEXT") fn = pick_same<B_C_UINT_TEXT>(te);
    else if (m == "C_LONG_TEXT") fn = pick_same<B_C_LONG_TEXT>(te);
    else if (m == "C_ULONG_TEXT") fn = pick_same<B_C_ULONG_TEXT>(te);
    else if (m == "C_LONGLONG_TEXT") fn = pick_same<B_C_LONGLONG_TEXT>(te);
    else if (m == "C_ULONGLONG_TEXT") fn = pick_same<B_C_ULONGLONG_TEXT>(te);
    else if (m == "C_CHAR_TEXT") fn = pick_same<B_C_CHAR_TEXT>(te);
    else if (m == "C_UBYTE_TEXT") fn = pick_same<B_C_UBYTE_TEXT>(te);
    else if (m == "C_SBYTE_TEXT") fn = pick_same<B_C_SBYTE_TEXT>(te);
    if (!fn) return false;
    std::string se = store(0, te, w[3]), sa = store(1, ta, w[5]);
    vh::emit("> int %s %s %s %s %s", m.c_str(), w[2].c_str(), se.c_str(), w[4].c_str(), sa.c_str());
    report(run_fn(fn));
    return true;
}

bool op_enum(const vh::Words& w) {
    if (w.size() != 6) return false;
    int tu = type_index(w[1]), te = type_index(w[2]), ta = type_index(w[4]);
    if (tu < 0 || te < 0 || te != ta) return false;
    Fn0 fn = 0;
    switch (tu) {
    case 0: fn = pick_same<B_ENUM_I8>(te); break;
    case 1: fn = pick_same<B_ENUM_U8>(te); break;
    case 2: fn = pick_same<B_ENUM_I16>(te); break;
    case 3: fn = pick_same<B_ENUM_U16>(te); break;
    case 4: fn = pick_same<B_ENUM_I32>(te); break;
    case 5: fn = pick_same<B_ENUM_U32>(te); break;
    case 6: fn = pick_same<B_ENUM_I64>(te); break;
    default: fn = pick_same<B_ENUM_U64>(te); break;
    }
    if (w[0] == "enumt") {          // the _TEXT forms
        if (tu == 4) fn = pick_same<B_ENUM_I32_TEXT>(te);
        else if (tu == 3) fn = pick_same<B_ENUM_U16_TEXT>(te);
        else return false;
    }
    std::string se = store(0, te, w[3]), sa = store(1, ta, w[5]);
    vh::emit("> enum %s %s %s %s %s", w[1].c_str(), w[2].c_str(), se.c_str(), w[4].c_str(), sa.c_str());
    report(run_fn(fn));
    return true;
}

bool op_bool(const vh::Words& w) {
    if (w.size() != 4) return false;
    int t = type_index(w[2]);
    if (t < 0) return false;
    const std::string& m = w[1];
    Fn0 fn = 0;
    if (m == "CHECK") fn = pick_same<B_CHECK>(t);
    else if (m == "CHECK_TRUE") fn = pick_same<B_CHECK_TRUE>(t);
    else if (m == "CHECK_FALSE") fn = pick_same<B_CHECK_FALSE>(t);
    else if (m == "CHECK_C") fn = pick_same<B_CHECK_C>(t);
    else if (m == "CHECK_TEXT") fn = pick_same<B_CHECK_TEXT>(t);
    else if (m == "CHECK_TRUE_TEXT") fn = pick_same<B_CHECK_TRUE_TEXT>(t);
    else if (m == "CHECK_FALSE_TEXT") fn = pick_same<B_CHECK_FALSE_TEXT>(t);
    else if (m == "CHECK_C_TEXT") fn = pick_same<B_CHECK_C_TEXT>(t);
    if (!fn) return false;
    std::string sv = store(0, t, w[3]);
    store(1, t, "0");
    vh::emit("> bool %s %s %s", m.c_str(), w[2].c_str(), sv.c_str());
    report(run_fn(fn));
    return true;
}

// ---- boolean macros on compound conditions -------------------------------------------------------
// The condition handed to the macro is an expression whose top-level operator binds weaker than unary `!`
// (and than a cast): the expansion has to treat the WHOLE argument as the predicate.
int g_bx[2];
#define BX_OPS(X, TAG, MAC) \
    X(TAG, MAC, o_or, a || b) X(TAG, MAC, o_and, a && b) X(TAG, MAC, o_eq, a == b) X(TAG, MAC, o_ne, a != b) \
    X(TAG, MAC, o_lt, a < b) X(TAG, MAC, o_cond, a ? b : 0)
#define BX_PLAIN(TAG, MAC, OP, EXPR) void bx_##TAG##_##OP() { int a = g_bx[0], b = g_bx[1]; (void) a; (void) b; MAC(EXPR); }
#define BX_TEXT(TAG, MAC, OP, EXPR) void bx_##TAG##_##OP() { int a = g_bx[0], b = g_bx[1]; (void) a; (void) b; MAC(EXPR, "text"); }
BX_OPS(BX_PLAIN, CHECK, CHECK)
BX_OPS(BX_PLAIN, CHECK_TRUE, CHECK_TRUE)
BX_OPS(BX_PLAIN, CHECK_FALSE, CHECK_FALSE)
BX_OPS(BX_PLAIN, CHECK_C, CHECK_C)
BX_OPS(BX_TEXT, CHECK_TEXT, CHECK_TEXT)
BX_OPS(BX_TEXT, CHECK_TRUE_TEXT, CHECK_TRUE_TEXT)
BX_OPS(BX_TEXT, CHECK_FALSE_TEXT, CHECK_FALSE_TEXT)
BX_OPS(BX_TEXT, CHECK_C_TEXT, CHECK_C_TEXT)
struct BxEntry { const char* macro; const char* op; Fn0 fn; };
#define BX_ROW(TAG, MAC, OP, EXPR) { #TAG, #OP + 2, &bx_##TAG##_##OP },
const BxEntry g_bx_table[] = {
    BX_OPS(BX_ROW, CHECK, CHECK) BX_OPS(BX_ROW, CHECK_TRUE, CHECK_TRUE) BX_OPS(BX_ROW, CHECK_FALSE, CHECK_FALSE)
    BX_OPS(BX_ROW, CHECK_C, CHECK_C) BX_OPS(BX_ROW, CHECK_TEXT, CHECK_TEXT) BX_OPS(BX_ROW, CHECK_TRUE_TEXT, CHECK_TRUE_TEXT)
    BX_OPS(BX_ROW, CHECK_FALSE_TEXT, CHECK_FALSE_TEXT) BX_OPS(BX_ROW, CHECK_C_TEXT, CHECK_C_TEXT)
};

bool parse_int32(const std::string& s, int& v) {
    if (s.empty()) return false;
    char* end = 0;
    long long x = strtoll(s.c_str(), &end, 10);       // saturates outside long long: rejected by the range test
    if (*end || x < -2147483647LL - 1 || x > 2147483647LL) return false;
    v = (int) x;
    return true;
}

bool op_boolx(const vh::Words& w) {
    if (w.size() != 5) return false;
    Fn0 fn = 0;
    for (size_t i = 0; i < sizeof g_bx_table / sizeof g_bx_table[0]; i++)
        if (w[1] == g_bx_table[i].macro && w[2] == g_bx_table[i].op) fn = g_bx_table[i].fn;
    int a, b;
    if (!fn || !parse_int32(w[3], a) || !parse_int32(w[4], b)) return false;
    g_bx[0] = a; g_bx[1] = b;
    vh::emit("> boolx %s %s %d %d", w[1].c_str(), w[2].c_str(), a, b);
    report(run_fn(fn));
    return true;
}

bool op_cmp(const vh::Words& w) {
    if (w.size() != 6) return false;
    int te = type_index(w[2]), ta = type_index(w[4]);
    if (te < 0 || ta < 0) return false;
    const std::string& o = w[1];
    Fn0 fn = 0;
    if (o == "lt") fn = pick_pair<B_CMP_LT>(te, ta);
    else if (o == "ge") fn = pick_pair<B_CMP_GE>(te, ta);
    else if (te != ta) fn = 0;                       // the other operators: same-type operands
    else if (o == "lt_text") fn = pick_same<B_CMP_LT_TEXT>(te);
    else if (o == "le") fn = pick_same<B_CMP_LE>(te);
    else if (o == "gt") fn = pick_same<B_CMP_GT>(te);
    else if (o == "eq") fn = pick_same<B_CMP_EQ>(te);
    else if (o == "ne") fn = pick_same<B_CMP_NE>(te);
    if (!fn) return false;
    std::string se = store(0, te, w[3]), sa = store(1, ta, w[5]);
    vh::emit("> cmp %s %s %s %s %s", o.c_str(), w[2].c_str(), se.c_str(), w[4].c_str(), sa.c_str());
    report(run_fn(fn));
    return true;
}

bool op_bits(const vh::Words& w) {
    if (w.size() != 8) return false;
    int te = type_index(w[2]), ta = type_index(w[4]), tm = type_index(w[6]);
    if (te < 0 || te != ta || (tm != 4 && tm != 1 && tm != 7)) return false;
    const std::string& m = w[1];
    Fn0 fn = 0;
    if (m == "BITS_EQUAL") fn = tm == 4 ? pick_same<B_BITS_I32>(te) : tm == 1 ? pick_same<B_BITS_U8>(te) : pick_same<B_BITS_U64>(te);
    else if (m == "BITS_EQUAL_TEXT") fn = tm == 4 ? pick_same<B_BITS_TEXT_I32>(te) : tm == 1 ? pick_same<B_BITS_TEXT_U8>(te) : pick_same<B_BITS_TEXT_U64>(te);
    else if (m == "C_BITS_TEXT") fn = tm == 4 ? pick_same<B_CBITS_TEXT_I32>(te) : tm == 1 ? pick_same<B_CBITS_TEXT_U8>(te) : pick_same<B_CBITS_TEXT_U64>(te);
    else if (m == "C_BITS") fn = tm == 4 ? pick_same<B_CBITS_I32>(te) : tm == 1 ? pick_same<B_CBITS_U8>(te) : pick_same<B_CBITS_U64>(te);
    if (!fn) return false;
    std::string se = store(0, te, w[3]), sa = store(1, ta, w[5]), sm = store(2, tm, w[7]);
    vh::emit("> bits %s %s %s %s %s %s %s", m.c_str(), w[2].c_str(), se.c_str(), w[4].c_str(), sa.c_str(), w[6].c_str(), sm.c_str());
    report(run_fn(fn));
    return true;
}

bool parse_double(const std::string& s, double& d) {
    if (s.size() != 16) return false;
    unsigned long long bits = 0;
    for (size_t i = 0; i < 16; i++) { int h = vh::hexval(s[i]); if (h < 0) return false; bits = (bits << 4) | (unsigned) h; }
    memcpy(&d, &bits, 8);
    return true;
}
std::string show_double(double d) {
    unsigned long long bits; memcpy(&bits, &d, 8);
    char buf[20]; snprintf(buf, sizeof buf, "%016llx", bits);
    return buf;
}

bool op_dbl(const vh::Words& w) {
    double e, a, t;
    if (w.size() != 5 || !parse_double(w[2], e) || !parse_double(w[3], a) || !parse_double(w[4], t)) return false;
    const std::string& m = w[1];
    if (m != "DOUBLES_EQUAL" && m != "C_REAL" && m != "CHECK_EQUAL" && m != "DOUBLES_EQUAL_TEXT" && m != "C_REAL_TEXT" && m != "CHECK_EQUAL_TEXT") return false;
    vh::emit("> dbl %s %s %s %s", m.c_str(), show_double(e).c_str(), show_double(a).c_str(), show_double(t).c_str());
    Result r = { 0, 0 };
    if (m == "DOUBLES_EQUAL") r = run([=] { DOUBLES_EQUAL(e, a, t); });
    else if (m == "DOUBLES_EQUAL_TEXT") r = run([=] { DOUBLES_EQUAL_TEXT(e, a, t, "text"); });
    else if (m == "C_REAL") r = run([=] { CHECK_EQUAL_C_REAL(e, a, t); });
    else if (m == "CHECK_EQUAL") r = run([=] { CHECK_EQUAL(e, a); });
    else if (m == "C_REAL_TEXT") r = run([=] { CHECK_EQUAL_C_REAL_TEXT(e, a, t, "text"); });
    else if (m == "CHECK_EQUAL_TEXT") r = run([=] { CHECK_EQUAL_TEXT(e, a, "text"); });
    report(r);
    return true;
}

bool op_dcmp(const vh::Words& w) {
    double e, a;
    if (w.size() != 4 || !parse_double(w[2], e) || !parse_double(w[3], a)) return false;
    const std::string& o = w[1];
    if (o != "lt" && o != "le" && o != "gt" && o != "ge" && o != "eq" && o != "ne") return false;
    vh::emit("> dcmp %s %s %s", o.c_str(), show_double(e).c_str(), show_double(a).c_str());
    Result r = { 0, 0 };
    if (o == "lt") r = run([=] { CHECK_COMPARE(e, <, a); });
    else if (o == "le") r = run([=] { CHECK_COMPARE(e, <=, a); });
    else if (o == "gt") r = run([=] { CHECK_COMPARE(e, >, a); });
    else if (o == "ge") r = run([=] { CHECK_COMPARE(e, >=, a); });
    else if (o == "eq") r = run([=] { CHECK_COMPARE(e, ==, a); });
    else if (o == "ne") r = run([=] { CHECK_COMPARE_TEXT(e, !=, a, "text"); });
    report(r);
    return true;
}

// a C string operand: NULL or an exact-size heap copy (so that ASan sees every overrun)
struct Str {
    bool null; std::string s; char* p;
    Str() : null(true), p(0) {}
    ~Str() { free(p); }
    bool parse(const std::string& w) {
        if (w == "null") { null = true; return true; }
        for (size_t i = 0; i < w.size(); i++) if (w != "-" && vh::hexval(w[i]) < 0) return false;
        if (w != "-" && w.size() % 2) return false;
        null = false;
        s = vh::unhex(w);
        s = std::string(s.c_str());          // a C string ends at its first NUL
        p = (char*) malloc(s.size() + 1);
        memcpy(p, s.c_str(), s.size() + 1);
        return true;
    }
    std::string show() const { return null ? std::string("null") : vh::hex(s); }
};

bool op_str(const vh::Words& w) {
    Str e, a;
    if (w.size() != 5 || !e.parse(w[2]) || !a.parse(w[3])) return false;
    const std::string& m = w[1];
    size_t n = (size_t) vh::to_u64(w[4]);
    static const char* names[] = { "STRCMP_EQUAL", "STRNCMP_EQUAL", "STRCMP_NOCASE_EQUAL", "STRCMP_CONTAINS",
        "STRCMP_NOCASE_CONTAINS", "C_STRING", "STRCMP_EQUAL_TEXT", "STRNCMP_EQUAL_TEXT", "STRCMP_NOCASE_EQUAL_TEXT",
        "STRCMP_CONTAINS_TEXT", "STRCMP_NOCASE_CONTAINS_TEXT", "C_STRING_TEXT", 0 };
    bool ok = false;
    for (int i = 0; names[i]; i++) if (m == names[i]) ok = true;
    if (!ok) return false;
    vh::emit("> str %s %s %s %lu", m.c_str(), e.show().c_str(), a.show().c_str(), (unsigned long) n);
    const char* pe = e.p; const char* pa = a.p;
    Result r = { 0, 0 };
    if (m == "STRCMP_EQUAL") r = run([=] { STRCMP_EQUAL(pe, pa); });
    else if (m == "STRCMP_EQUAL_TEXT") r = run([=] { STRCMP_EQUAL_TEXT(pe, pa, "text"); });
    else if (m == "STRNCMP_EQUAL") r = run([=] { STRNCMP_EQUAL(pe, pa, n); });
    else if (m == "STRNCMP_EQUAL_TEXT") r = run([=] { STRNCMP_EQUAL_TEXT(pe, pa, n, "text"); });
    else if (m == "STRCMP_NOCASE_EQUAL") r = run([=] { STRCMP_NOCASE_EQUAL(pe, pa); });
    else if (m == "STRCMP_CONTAINS") r = run([=] { STRCMP_CONTAINS(pe, pa); });
    else if (m == "STRCMP_NOCASE_CONTAINS") r = run([=] { STRCMP_NOCASE_CONTAINS(pe, pa); });
    else if (m == "C_STRING") r = run([=] { CHECK_EQUAL_C_STRING(pe, pa); });
    else if (m == "STRCMP_NOCASE_EQUAL_TEXT") r = run([=] { STRCMP_NOCASE_EQUAL_TEXT(pe, pa, "text"); });
    else if (m == "STRCMP_CONTAINS_TEXT") r = run([=] { STRCMP_CONTAINS_TEXT(pe, pa, "text"); });
    else if (m == "STRCMP_NOCASE_CONTAINS_TEXT") r = run([=] { STRCMP_NOCASE_CONTAINS_TEXT(pe, pa, "text"); });
    else if (m == "C_STRING_TEXT") r = run([=] { CHECK_EQUAL_C_STRING_TEXT(pe, pa, "text"); });
    report(r);
    return true;
}

struct Block {
    bool null; std::string s; unsigned char* p;
    Block() : null(true), p(0) {}
    ~Block() { free(p); }
    bool parse(const std::string& w) {
        if (w == "null") { null = true; return true; }
        for (size_t i = 0; i < w.size(); i++) if (w != "-" && vh::hexval(w[i]) < 0) return false;
        if (w != "-" && w.size() % 2) return false;
        null = false;
        s = vh::unhex(w);
        p = (unsigned char*) malloc(s.size() ? s.size() : 1);   // exact size (a 0 byte block is still a non-NULL pointer)
        if (s.size()) memcpy(p, s.data(), s.size());
        return true;
    }
    std::string show() const { return null ? std::string("null") : vh::hex(s); }
};

bool op_mem(const vh::Words& w) {
    Block e, a;
    if (w.size() != 5 || !e.parse(w[2]) || !a.parse(w[3])) return false;
    const std::string& m = w[1];
    if (m != "MEMCMP_EQUAL" && m != "C_MEMCMP" && m != "MEMCMP_EQUAL_TEXT" && m != "C_MEMCMP_TEXT") return false;
    size_t n = (size_t) vh::to_u64(w[4]);
    // the caller promises `n` readable bytes behind every non-NULL pointer (n = 0 promises nothing)
    if ((!e.null && e.s.size() < n) || (!a.null && a.s.size() < n)) return false;
    vh::emit("> mem %s %s %s %lu", m.c_str(), e.show().c_str(), a.show().c_str(), (unsigned long) n);
    const unsigned char* pe = e.p; const unsigned char* pa = a.p;
    Result r = { 0, 0 };
    if (m == "MEMCMP_EQUAL") r = run([=] { MEMCMP_EQUAL(pe, pa, n); });
    else if (m == "MEMCMP_EQUAL_TEXT") r = run([=] { MEMCMP_EQUAL_TEXT(pe, pa, n, "text"); });
    else if (m == "C_MEMCMP") r = run([=] { CHECK_EQUAL_C_MEMCMP(pe, pa, n); });
    else if (m == "C_MEMCMP_TEXT") r = run([=] { CHECK_EQUAL_C_MEMCMP_TEXT(pe, pa, n, "text"); });
    report(r);
    return true;
}

bool op_ptr(const vh::Words& w) {
    if (w.size() != 4) return false;
    const std::string& m = w[1];
    if (m != "POINTERS_EQUAL" && m != "FUNCTIONPOINTERS_EQUAL" && m != "C_POINTER" && m != "CHECK_EQUAL" && m != "POINTERS_EQUAL_TEXT" && m != "FUNCTIONPOINTERS_EQUAL_TEXT" && m != "C_POINTER_TEXT") return false;
    unsigned long ue = vh::to_u64(w[2]), ua = vh::to_u64(w[3]);
    vh::emit("> ptr %s %lu %lu", m.c_str(), ue, ua);
    const void* pe = (const void*) ue; const void* pa = (const void*) ua;
    typedef void (*Fn)();
    Fn fe = (Fn) ue; Fn fa = (Fn) ua;
    Result r = { 0, 0 };
    if (m == "POINTERS_EQUAL") r = run([=] { POINTERS_EQUAL(pe, pa); });
    else if (m == "POINTERS_EQUAL_TEXT") r = run([=] { POINTERS_EQUAL_TEXT(pe, pa, "text"); });
    else if (m == "FUNCTIONPOINTERS_EQUAL") r = run([=] { FUNCTIONPOINTERS_EQUAL(fe, fa); });
    else if (m == "C_POINTER") r = run([=] { CHECK_EQUAL_C_POINTER(pe, pa); });
    else if (m == "FUNCTIONPOINTERS_EQUAL_TEXT") r = run([=] { FUNCTIONPOINTERS_EQUAL_TEXT(fe, fa, "text"); });
    else if (m == "C_POINTER_TEXT") r = run([=] { CHECK_EQUAL_C_POINTER_TEXT(pe, pa, "text"); });
    else if (m == "CHECK_EQUAL") r = run([=] { CHECK_EQUAL(pe, pa); });
    report(r);
    return true;
}

bool op_fail(const vh::Words& w) {
    if (w.size() != 2) return false;
    const std::string& m = w[1];
    if (m != "FAIL" && m != "FAIL_TEST" && m != "C_FAIL" && m != "C_FAIL_TEXT") return false;
    vh::emit("> fail %s", m.c_str());
    Result r = { 0, 0 };
    if (m == "FAIL") r = run([] { FAIL("text"); });
    else if (m == "FAIL_TEST") r = run([] { FAIL_TEST("text"); });
    else if (m == "C_FAIL") r = run([] { FAIL_C(); });
    else if (m == "C_FAIL_TEXT") r = run([] { FAIL_TEXT_C("text"); });
    report(r);
    return true;
}

// zero <MACRO> <t> <v>: CHECK_EQUAL_ZERO(v) / CHECK_EQUAL_ZERO_TEXT(v, text)
bool op_zero(const vh::Words& w) {
    if (w.size() != 4) return false;
    int t = type_index(w[2]);
    if (t < 0) return false;
    Fn0 fn = 0;
    if (w[1] == "CHECK_EQUAL_ZERO") fn = pick_same<B_CHECK_EQUAL_ZERO>(t);
    else if (w[1] == "CHECK_EQUAL_ZERO_TEXT") fn = pick_same<B_CHECK_EQUAL_ZERO_TEXT>(t);
    if (!fn) return false;
    store(0, t, "0");
    std::string sv = store(1, t, w[3]);
    vh::emit("> zero %s %s %s", w[1].c_str(), w[2].c_str(), sv.c_str());
    report(run_fn(fn));
    return true;
}

// throws <nothing|expected|other>: CHECK_THROWS(int, expression) where the expression throws nothing / an int / a double
struct Quiet {};
int g_throw_kind = 0;
int thrower() { if (g_throw_kind == 1) throw (int) 7; if (g_throw_kind == 2) throw (double) 1.5; if (g_throw_kind == 3) throw Quiet(); return 0; }
bool op_throws(const vh::Words& w) {
    if (w.size() != 2) return false;
    int k = w[1] == "nothing" ? 0 : w[1] == "expected" ? 1 : w[1] == "other" ? 2 : w[1] == "other_class" ? 3 : -1;
    if (k < 0) return false;
    g_throw_kind = k;
    vh::emit("> throws %s", k == 0 ? "nothing" : k == 1 ? "expected" : "other");
    report(run([] { CHECK_THROWS(int, thrower()); }));
    return true;
}

// seq <step>...: one test body made of several check statements; a failing check must end the body at once.
// Observations: r <failures> <checks>, ran <number of statements that were started>
int g_ran = 0;
const char* g_null_string = 0;
const char* step_names[] = { "cpp_pass", "cpp_fail", "c_pass", "c_fail", "cmp_pass", "cmp_fail", "str_null_fail", "cstr_null_fail",
    "fail", "c_fail_text", "mem_null_fail", "throws_pass", "throws_fail", "dbl_fail", "check_fail", "c_check_fail", "equal_fail",
    "equal_pass", "bits_fail", "exit", 0 };
void do_step(int k) {
    g_ran++;
    switch (k) {
    case 0: LONGS_EQUAL(1, 1); break;
    case 1: LONGS_EQUAL(1, 2); break;
    case 2: CHECK_EQUAL_C_INT(1, 1); break;
    case 3: CHECK_EQUAL_C_INT(1, 2); break;
    case 4: CHECK_COMPARE(1, <, 2); break;
    case 5: CHECK_COMPARE(2, <, 1); break;
    case 6: STRCMP_EQUAL("a", g_null_string); break;          // would dereference NULL if the body went on inside the check
    case 7: CHECK_EQUAL_C_STRING(g_null_string, "a"); break;
    case 8: FAIL("text"); break;
    case 9: FAIL_TEXT_C("text"); break;
    case 10: MEMCMP_EQUAL(g_null_string, "ab", 2); break;
    case 11: g_throw_kind = 1; CHECK_THROWS(int, thrower()); break;
    case 12: g_throw_kind = 0; CHECK_THROWS(int, thrower()); break;
    case 13: DOUBLES_EQUAL(1.0, 2.0, 0.5); break;
    case 14: CHECK(false); break;
    case 15: CHECK_C(0); break;
    case 16: CHECK_EQUAL(1, 2); break;
    case 17: CHECK_EQUAL(3, 3); break;
    case 18: BITS_EQUAL(1, 2, 3); break;
    case 19: TEST_EXIT; break;
    }
}
std::vector<int> g_steps;
void seq_body() { for (size_t i = 0; i < g_steps.size(); i++) do_step(g_steps[i]); }
// seqc: the same body with UtestShell::setCrashOnFail() in force (the -f command line mode): every failing check goes
// through CrashingTestTerminator / CrashingTestTerminatorWithoutExceptions, which call UtestShell::crash() (replaced by a
// counting function here) and then leave the test like the normal terminators.  Extra observation: crashed <calls>
int g_crash_calls = 0;
void counting_crash() { g_crash_calls++; }
bool op_seq(const vh::Words& w) {
    if (w.size() < 2) return false;
    bool crash_mode = w[0] == "seqc";
    g_steps.clear();
    std::string echo = crash_mode ? "> seqc" : "> seq";
    for (size_t i = 1; i < w.size(); i++) {
        int k = -1;
        for (int j = 0; step_names[j]; j++) if (w[i] == step_names[j]) k = j;
        if (k < 0) return false;
        g_steps.push_back(k);
        echo += " " + w[i];
    }
    vh::emit("%s", echo.c_str());
    g_ran = 0;
    g_crash_calls = 0;
    if (crash_mode) { UtestShell::setCrashMethod(counting_crash); UtestShell::setCrashOnFail(); }
    bool failed_flag;
    Result r;
    {
        TestTestingFixture fixture;
        fixture.setTestFunction(seq_body);
        fixture.runAllTests();
        r.failures = fixture.getFailureCount();
        r.checks = fixture.getCheckCount();
        failed_flag = fixture.hasTestFailed();
    }
    if (crash_mode) { UtestShell::restoreDefaultTestTerminator(); UtestShell::resetCrashMethod(); }
    report(r);
    vh::emit("ran %d", g_ran);
    vh::emit("failed %d", failed_flag ? 1 : 0);
    if (crash_mode) vh::emit("crashed %d", g_crash_calls);
    return true;
}

// evals <CHECK_EQUAL|CHECK_COMPARE_lt> <e0> <estep> <a0> <astep>: int operands whose value changes with every evaluation
// (k-th evaluation yields start + k * step).  Observations: r, evals <expected evaluations> <actual evaluations>,
// warn <number of "evaluated multiple times" warnings printed>
long g_ev[2][3];     // start, step, count
int next_value(int i) { long k = g_ev[i][2]++; return (int) (g_ev[i][0] + k * g_ev[i][1]); }
void evals_equal_body() { CHECK_EQUAL(next_value(0), next_value(1)); }
void evals_compare_body() { CHECK_COMPARE(next_value(0), <, next_value(1)); }
void evals_longs_body() { LONGS_EQUAL(next_value(0), next_value(1)); }
enum EvEnum { ev_zero = 0 };
struct EvalsBody { const char* name; void (*fn)(); };
const EvalsBody evals_bodies[] = {
    { "CHECK_EQUAL_TEXT", [] { CHECK_EQUAL_TEXT(next_value(0), next_value(1), "text"); } },
    { "CHECK_COMPARE_ge", [] { CHECK_COMPARE(next_value(0), >=, next_value(1)); } },
    { "UNSIGNED_LONGS_EQUAL", [] { UNSIGNED_LONGS_EQUAL(next_value(0), next_value(1)); } },
    { "LONGLONGS_EQUAL", [] { LONGLONGS_EQUAL(next_value(0), next_value(1)); } },
    { "UNSIGNED_LONGLONGS_EQUAL", [] { UNSIGNED_LONGLONGS_EQUAL(next_value(0), next_value(1)); } },
    { "BYTES_EQUAL", [] { BYTES_EQUAL(next_value(0), next_value(1)); } },
    { "SIGNED_BYTES_EQUAL", [] { SIGNED_BYTES_EQUAL((signed char) next_value(0), (signed char) next_value(1)); } },
    { "BITS_EQUAL", [] { BITS_EQUAL(next_value(0), next_value(1), 0xff); } },
    { "ENUMS_EQUAL_INT", [] { ENUMS_EQUAL_INT((EvEnum) next_value(0), (EvEnum) next_value(1)); } },
    { "DOUBLES_EQUAL", [] { DOUBLES_EQUAL((double) next_value(0), (double) next_value(1), 0.5); } },
    { "POINTERS_EQUAL", [] { POINTERS_EQUAL((void*) (long) next_value(0), (void*) (long) next_value(1)); } },
    { "C_INT", [] { CHECK_EQUAL_C_INT(next_value(0), next_value(1)); } },
    { "C_LONG", [] { CHECK_EQUAL_C_LONG(next_value(0), next_value(1)); } },
    { "C_BOOL", [] { CHECK_EQUAL_C_BOOL(next_value(0), next_value(1)); } },
    { "C_UBYTE", [] { CHECK_EQUAL_C_UBYTE((unsigned char) next_value(0), (unsigned char) next_value(1)); } },
    { "C_BITS", [] { CHECK_EQUAL_C_BITS(next_value(0), next_value(1), 0xff); } },
    { "C_REAL", [] { CHECK_EQUAL_C_REAL((double) next_value(0), (double) next_value(1), 0.5); } },
    // one operand: only the `expected` stream is used
    { "CHECK", [] { CHECK(next_value(0)); } },
    { "CHECK_TRUE", [] { CHECK_TRUE(next_value(0)); } },
    { "CHECK_FALSE", [] { CHECK_FALSE(next_value(0)); } },
    { "CHECK_C", [] { CHECK_C(next_value(0)); } },
    // CHECK_EQUAL_ZERO(actual): only the `actual` stream is used
    { "CHECK_EQUAL_ZERO", [] { CHECK_EQUAL_ZERO(next_value(1)); } },
    { 0, 0 } };
bool op_evals(const vh::Words& w) {
    if (w.size() != 6) return false;
    void (*fn)() = w[1] == "CHECK_EQUAL" ? evals_equal_body : w[1] == "CHECK_COMPARE_lt" ? evals_compare_body :
                   w[1] == "LONGS_EQUAL" ? evals_longs_body : 0;
    for (int i = 0; !fn && evals_bodies[i].name; i++) if (w[1] == evals_bodies[i].name) fn = evals_bodies[i].fn;
    if (!fn) return false;
    for (int i = 0; i < 2; i++) {
        g_ev[i][0] = (int) vh::to_i64(w[2 + 2 * i]); g_ev[i][1] = (int) vh::to_i64(w[3 + 2 * i]); g_ev[i][2] = 0;
        if (g_ev[i][0] > 1000000 || g_ev[i][0] < -1000000 || g_ev[i][1] > 1000 || g_ev[i][1] < -1000) return false;   // no int overflow
    }
    vh::emit("> evals %s %ld %ld %ld %ld", w[1].c_str(), g_ev[0][0], g_ev[0][1], g_ev[1][0], g_ev[1][1]);
    TestTestingFixture fixture;
    fixture.setTestFunction(fn);
    fixture.runAllTests();
    vh::emit("r %lu %lu", (unsigned long) fixture.getFailureCount(), (unsigned long) fixture.getCheckCount());
    vh::emit("evals %ld %ld", g_ev[0][2], g_ev[1][2]);
    std::string out = fixture.getOutput().asCharString();
    int warn = 0;
    for (size_t pos = 0; (pos = out.find("is evaluated multiple times", pos)) != std::string::npos; pos++) warn++;
    vh::emit("warn %d", warn);
    return true;
}

void run_case(const vh::Case& c) {
    for (size_t i = 0; i < c.ops.size(); i++) {
        const vh::Words& w = c.ops[i];
        bool done = false;
        if (w[0] == "int") done = op_int(w);
        else if (w[0] == "enum") done = op_enum(w);
        else if (w[0] == "bool") done = op_bool(w);
        else if (w[0] == "boolx") done = op_boolx(w);
        else if (w[0] == "dbl") done = op_dbl(w);
        else if (w[0] == "dcmp") done = op_dcmp(w);
        else if (w[0] == "cmp") done = op_cmp(w);
        else if (w[0] == "str") done = op_str(w);
        else if (w[0] == "mem") done = op_mem(w);
        else if (w[0] == "bits") done = op_bits(w);
        else if (w[0] == "ptr") done = op_ptr(w);
        else if (w[0] == "fail") done = op_fail(w);
        else if (w[0] == "enumt") done = op_enum(w);
        else if (w[0] == "zero") done = op_zero(w);
        else if (w[0] == "throws") done = op_throws(w);
        else if (w[0] == "seq" || w[0] == "seqc") done = op_seq(w);
        else if (w[0] == "evals") done = op_evals(w);
        if (!done) vh::emit("> skip");
    }
}

} // namespace

int main() { return vh::run_all(run_case); }
