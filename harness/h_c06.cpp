// C06 correspondence harness: misuse classification of a private MemoryLeakDetector (see h_c04_util.h).
// Adds to the C04 operations: write (one byte into the user or guard bytes), invalidate, typecheck,
// setcur and the real release/acquire overloads (gnew/gdelete/gnewarray/gdeletearray/gmalloc/gfree).
#include "h_c04_util.h"

static void run_case(const vh::Case& c) { ld::run_case(c, true); }

int main() {
    // the harness process itself must not depend on the code under test: no leak tracking of its own allocations
    MemoryLeakWarningPlugin::turnOffNewDeleteOverloads();
    return vh::run_all(run_case);
}
