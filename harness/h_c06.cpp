// C06 correspondence harness: misuse classification of a private MemoryLeakDetector (see h_c04_util.h).
// Adds to the C04 operations: write (one byte into the user or guard bytes), invalidate, typecheck,
// setcur and the real release/acquire overloads (gnew/gdelete/gnewarray/gdeletearray/gmalloc/gfree).
//
// C06's own additions (this file):
//  * the complete text handed to MemoryLeakFailure::fail is printed (`failtext <hex>`), not only its parsed fields;
//  * two more allocator objects in the registry: 15 = NullUnknownAllocator::defaultAllocator(), 16 = a CrashOnAllocationAllocator;
//  * operations
//      mlaalloc <13|14> <label> <slot> <size> <file> <line>     MemoryLeakAllocator::alloc_memory (forwards to the global detector)
//      mlafree  <13|14> <label|null|@addr> <delta> <file> <line> MemoryLeakAllocator::free_memory
//      nullfree <label|null|@addr> <delta> <file> <line> <sep>   deallocMemory through the NullUnknownAllocator
//      nullalloc <size> <file> <line> <sep>                      allocMemory through the NullUnknownAllocator
//      crashon <n>                                               CrashOnAllocationAllocator::setNumberToCrashOn
//      setcurx new|newarray|malloc 16                            the crash allocator becomes a current allocator (printed as `setcur`)
//    every other line is executed by the shared code, one operation at a time.
#include "h_c04_util.h"
#include "CppUTest/Utest.h"

namespace c6 {

static void crash_hook() { ld::logf("crashcall"); }

struct Reporter6 : public MemoryLeakFailure {
    ld::Harness* h;
    Reporter6() : h(0) {}
    // nothing here allocates (the overloads may be routed to the detector under test)
    void fail(char* s) CPPUTEST_OVERRIDE {
        size_t n = strlen(s);
        size_t seen = h->reporter.seen;
        const char* m = n >= seen ? s + seen : s;
        static char text[1024]; size_t k = strlen(m); bool toolong = k > 900;
        if (!toolong) memcpy(text, m, k + 1);
        size_t before = ld::g_loglen;
        h->reporter.fail(s);                       // parsed fields (`fail <kind> ...`), as C04 prints them
        const char* logged = ld::g_log + before;
        if (strncmp(logged, "fail lost", 9) == 0 || strncmp(logged, "fail unparsed", 13) == 0) return;
        if (toolong) { ld::logf("failtext toolong"); return; }
        if (strstr(text, "MemoryLeakDetector.cpp line:")) return;      // stage release: __FILE__ is a build path
        static char hx[2 * 1024 + 8];
        ld::hexinto(hx, (const unsigned char*) text, k);
        ld::logf("failtext %s", hx);
    }
};

struct H6 : public ld::Harness {
    Reporter6 rep6;
    CrashOnAllocationAllocator* crash;
    int nullIndex, crashIndex;
    H6() : ld::Harness(true), crash(0), nullIndex(-1), crashIndex(-1) {}

    void init6() {
        init();
        // the detector under test reports through rep6 (which prints the text and then does what C04's reporter does)
        rep6.h = this;
        delete det;
        det = new MemoryLeakDetector(&rep6);
        nullIndex = (int) allocs.size(); add(NullUnknownAllocator::defaultAllocator(), false, -1, false);     // 15
        crash = new CrashOnAllocationAllocator();
        crashIndex = (int) allocs.size(); add(crash, false, -1, false);                                        // 16
        UtestShell::setCrashMethod(crash_hook);
    }

    void global_det_on() { MemoryLeakWarningPlugin::setGlobalDetector(det, &reporter); ld::g_in_det = true; }
    void global_det_off() { ld::g_in_det = false; MemoryLeakWarningPlugin::setGlobalDetector(sink, &sinkReporter); }

    bool own_op(const vh::Words& w) {
        const std::string& o = w[0];
        ld::g_loglen = 0; ld::g_log[0] = 0; ld::g_pending = -1; ld::g_pending_null = false;
        if (o == "mlaalloc" && w.size() >= 7) {
            int ai = atoi(w[1].c_str()); size_t size = (size_t) vh::to_u64(w[4]); int slot = -1;
            if (!((ai == 13 || ai == 14) && w[1].size() == 2) || !slot_ok(w[3], size, slot) || !line_ok(w[6])) { vh::emit("> skip"); return true; }
            vh::emit("> mlaalloc %d %lu %s %lu", ai, (unsigned long) size, w[5].c_str(), (unsigned long) vh::to_u64(w[6]));
            ld::g_pending = slot; set_print_sizes(ai); ld::g_usersize[slot] = size; ld::g_raw_free = true;
            global_det_on();
            char* p = allocs[ai].a->alloc_memory(size, w[5].c_str(), (size_t) vh::to_u64(w[6]));
            global_det_off();
            ld::g_raw_free = false;
            if (p) { ld::Label l; l.addr = ld::addr_of(p); l.size = size; labels[w[2]] = l; if (ld::slot_base(p)) ld::g_usersize[ld::slot_of(p)] = size; fill_user(p, size); track(p); }
            ld::logf("ret %lu", ld::addr_of(p));
            flush(); totals();
            return true;
        }
        if (o == "mlafree" && w.size() >= 6) {
            int ai = atoi(w[1].c_str()); unsigned long addr;
            if (!((ai == 13 || ai == 14) && w[1].size() == 2) || !resolve(w[2], w[3], addr) || !line_ok(w[5])) { vh::emit("> skip"); return true; }
            vh::emit("> mlafree %d %lu %s %lu", ai, addr, w[4].c_str(), (unsigned long) vh::to_u64(w[5]));
            clear_text(); set_print_sizes(ai);
            global_det_on();
            allocs[ai].a->free_memory(ld::ptr_of(addr), 0, w[4].c_str(), (size_t) vh::to_u64(w[5]));
            global_det_off();
            flush(); totals();
            return true;
        }
        if (o == "nullfree" && w.size() >= 6) {
            unsigned long addr; bool sep = w[5] == "1";
            if (!resolve(w[1], w[2], addr) || !line_ok(w[4])) { vh::emit("> skip"); return true; }
            vh::emit("> nullfree %lu %s %lu %d", addr, w[3].c_str(), (unsigned long) vh::to_u64(w[4]), sep ? 1 : 0);
            clear_text(); ld::g_print_sizes = false;
            unsigned long before = (unsigned long) det->totalMemoryLeaks(mem_leak_period_all);
            ld::g_in_det = true;
            det->deallocMemory(allocs[nullIndex].a, ld::ptr_of(addr), w[3].c_str(), (size_t) vh::to_u64(w[4]), sep);
            ld::g_in_det = false;
            // the record is gone but the block was not handed back: the client still owns it (it may `drop` it)
            char* p = ld::ptr_of(addr);
            if (p && ld::slot_base(p) && ld::g_live[ld::slot_of(p)] && (unsigned long) det->totalMemoryLeaks(mem_leak_period_all) < before)
                ld::g_tracked[ld::slot_of(p)] = false;
            flush(); totals();
            return true;
        }
        if (o == "nullalloc" && w.size() >= 5) {
            size_t size = (size_t) vh::to_u64(w[1]); bool sep = w[4] == "1";
            if (!line_ok(w[3]) || w[1].size() > 18) { vh::emit("> skip"); return true; }
            vh::emit("> nullalloc %lu %s %lu %d", (unsigned long) size, w[2].c_str(), (unsigned long) vh::to_u64(w[3]), sep ? 1 : 0);
            ld::g_in_det = true;
            char* p = det->allocMemory(allocs[nullIndex].a, size, w[2].c_str(), (size_t) vh::to_u64(w[3]), sep);
            ld::g_in_det = false;
            ld::logf("ret %lu", ld::addr_of(p));
            flush(); totals();
            return true;
        }
        if (o == "crashon" && w.size() >= 2 && w[1].size() <= 9) {
            vh::emit("> crashon %lu", (unsigned long) vh::to_u64(w[1]));
            crash->setNumberToCrashOn((unsigned) vh::to_u64(w[1]));
            totals();
            return true;
        }
        if (o == "setcurx" && w.size() >= 3) {
            if (atoi(w[2].c_str()) != crashIndex || mrp) { vh::emit("> skip"); return true; }
            if (w[1] == "new") setCurrentNewAllocator(crash);
            else if (w[1] == "newarray") setCurrentNewArrayAllocator(crash);
            else if (w[1] == "malloc") setCurrentMallocAllocator(crash);
            else { vh::emit("> skip"); return true; }
            vh::emit("> setcur %s %d", w[1].c_str(), crashIndex);
            totals();
            return true;
        }
        return false;
    }

    void run6(const vh::Case& c) {
        for (size_t i = 0; i < c.ops.size(); i++) {
            const vh::Words& w = c.ops[i];
            if (own_op(w)) continue;
            if (w[0] == "setup" && i != 0) { vh::emit("> skip"); continue; }
            if (w[0] == "mrp" && crash && (getCurrentNewAllocator() == crash || getCurrentNewArrayAllocator() == crash || getCurrentMallocAllocator() == crash)) {
                vh::emit("> skip"); continue;          // the report plugin around the crash allocator is not part of this check
            }
            // the detector keeps the file-name pointers of the operation words: the one-operation case must outlive the run
            vh::Case* one = new vh::Case(); one->id = c.id; one->ops.push_back(w);
            run(*one);
            if (w[0] == "setup" && w.size() == 1 && i == 0) vh::emit("special null %d crash %d", nullIndex, crashIndex);
        }
    }
};

} // namespace c6

static void run_case(const vh::Case& c) {
    c6::H6* h = new c6::H6();
    h->init6();
    h->run6(c);
}

int main() {
    // the harness process itself must not depend on the code under test: no leak tracking of its own allocations
    MemoryLeakWarningPlugin::turnOffNewDeleteOverloads();
    return vh::run_all(run_case);
}
