// C18 correspondence harness: drives the real SimpleStringInternalCache with a recording
// underlying allocator.  Underlying blocks are numbered 1,2,3,... in allocation order.
#include "fixture.h"
#include "CppUTest/SimpleStringInternalCache.h"

#undef new

namespace {

struct RecordingAllocator : public TestMemoryAllocator {
    std::map<char*, unsigned long> ids;
    unsigned long next;
    bool quiet;
    const char* tag;        // "u": the allocator the cache was given; "u2": another allocator installed later
    RecordingAllocator(const char* t = "u", unsigned long first = 1)
        : TestMemoryAllocator("recording", "ralloc", "rfree"), next(first), quiet(false), tag(t) {}
    char* alloc_memory(size_t size, const char*, size_t) CPPUTEST_OVERRIDE {
        char* p = (char*) malloc(size ? size : 1);
        unsigned long id = next++;
        ids[p] = id;
        if (!quiet) vh::emit("%salloc %lu %lu", tag, (unsigned long) size, id);
        return p;
    }
    void free_memory(char* memory, size_t size, const char*, size_t) CPPUTEST_OVERRIDE {
        std::map<char*, unsigned long>::iterator it = ids.find(memory);
        unsigned long id = it == ids.end() ? 0 : it->second;   // 0: never allocated here / already freed
        if (!quiet) vh::emit("%sfree %lu %lu", tag, id, (unsigned long) size);
        if (it != ids.end()) { ids.erase(it); free(memory); }
    }
};

const vh::Case* g_case = 0;

// foreign buffers (never given to the cache); must be valid C strings because the warning
// prints the buffer with %s
char g_foreign[8][16] = { "foreign0", "foreign1", "foreign2", "foreign3", "foreign4", "foreign5", "foreign6", "foreign7" };
const unsigned long FOREIGN_BASE = 1000000;

struct LiveString { SimpleString* s; unsigned long id; size_t len; };

void body() {
    RecordingAllocator rec;
    RecordingAllocator rec2("u2", 500001);       // installed as string allocator by `gswap` while the global cache exists
    bool swapped = false;
    std::map<std::string, LiveString> strings;   // real SimpleString objects living in the global cache
    SimpleStringInternalCache* cache = 0;
    GlobalSimpleStringCache* gcache = 0;          // the global cache object (string allocator = its SimpleStringCacheAllocator)
    TestMemoryAllocator* savedStringAllocator = 0;
    std::map<unsigned long, char*> handed;     // id -> pointer for buffers returned by alloc
    const vh::Case& c = *g_case;
    std::map<std::string, unsigned long> labels;   // generator label -> id of the buffer that alloc returned
    for (size_t i = 0; i < c.ops.size(); i++) {
        const vh::Words& w = c.ops[i];
        size_t before = vh::fixture_output_size();
        if (w[0] == "create" && !cache && !gcache) {
            vh::emit_op("create");
            // The constructor (and destructor) take the node table from defaultMallocAllocator(),
            // which cannot be replaced; the table allocation is therefore not observed.
            cache = new SimpleStringInternalCache();
            cache->setAllocator(&rec);
        }
        else if (w[0] == "gcreate" && !cache && !gcache) {
            // GlobalSimpleStringCache takes SimpleString's current allocator as the cache's underlying allocator
            vh::emit_op("gcreate");
            savedStringAllocator = SimpleString::getStringAllocator();
            SimpleString::setStringAllocator(&rec);
            rec.quiet = true;                          // `new SimpleStringCacheAllocator` etc. are not string buffers
            gcache = new GlobalSimpleStringCache();
            rec.quiet = false;
            // which allocator do strings use now?
            TestMemoryAllocator* cur = SimpleString::getStringAllocator();
            vh::emit("stralloc %s", cur == gcache->getAllocator() ? "cache" : cur == &rec ? "orig" : "unknown");
        }
        else if (w[0] == "gswap" && gcache && !swapped) {
            // a test installs another string allocator while the global cache exists: the cache keeps the
            // underlying allocator it was constructed with, and its destructor restores the saved one
            vh::emit_op("gswap");
            SimpleString::setStringAllocator(&rec2);
            swapped = true;
        }
        else if (w[0] == "names" && gcache) {
            vh::emit_op("names");
            TestMemoryAllocator* a = gcache->getAllocator();
            vh::emit("name %s %s %s", a->name(), a->alloc_name(), a->free_name());
            vh::emit("actual %s", a->actualAllocator() == &rec ? "orig" : a->actualAllocator() == a ? "cache" : "unknown");
        }
        else if (w[0] == "sstr" && w.size() >= 3 && gcache && !swapped) {
            // a real SimpleString of <len> characters: its buffer (len + 1 bytes) comes out of the global cache
            size_t len = (size_t) vh::to_u64(w[1]);
            vh::emit("> sstr %lu", (unsigned long) len);
            std::string text(len, 'y');
            LiveString ls; ls.len = len;
            ls.s = new SimpleString(text.c_str());
            char* p = const_cast<char*>(ls.s->asCharString());
            ls.id = rec.ids.count(p) ? rec.ids[p] : 0;
            strings[w[2]] = ls;
            vh::emit("ret %lu", ls.id);
        }
        else if (w[0] == "sappend" && w.size() >= 3 && gcache && !swapped && strings.count(w[1])) {
            // operator+= : new buffer of len + k + 1 bytes first, then the old buffer is released
            LiveString& ls = strings[w[1]];
            size_t k = (size_t) vh::to_u64(w[2]);
            vh::emit("> sappend %lu %lu %lu", ls.id, (unsigned long) ls.len, (unsigned long) k);
            std::string more(k, 'z');
            *ls.s += more.c_str();
            char* p = const_cast<char*>(ls.s->asCharString());
            ls.id = rec.ids.count(p) ? rec.ids[p] : 0;
            ls.len += k;
            vh::emit("newbuf %lu", ls.id);
        }
        else if (w[0] == "sdel" && w.size() >= 2 && gcache && !swapped && strings.count(w[1])) {
            LiveString ls = strings[w[1]];
            strings.erase(w[1]);
            vh::emit("> sdel %lu %lu", ls.id, (unsigned long) ls.len);
            delete ls.s;
        }
        else if (w[0] == "hasfree" && w.size() >= 2 && cache) {
            size_t size = (size_t) vh::to_u64(w[1]);
            vh::emit("> hasfree %lu", (unsigned long) size);
            vh::emit("hasfree %d", cache->hasFreeBlocksOfSize(size) ? 1 : 0);
        }
        else if (w[0] == "gnested" && !cache && !gcache) {
            // The one-time warning is printed through the test's output, whose text buffer was allocated
            // BEFORE the global cache was installed: appending the warning re-allocates that text through
            // the cache and releases the old, unknown buffer from inside the warning itself.  The warning
            // must still appear exactly once.  Underlying-allocator events are not part of this scenario.
            vh::emit_op("gnested");
            UtestShell::getCurrent()->print("output produced before the cache was installed, long enough to be re-allocated when more text is appended ................................................................................................\n", __FILE__, __LINE__);
            // the cache's underlying allocator and the cache itself are deliberately kept (and kept installed)
            // until the case child exits: the output's text lives in a cache buffer from now on
            RecordingAllocator* keep = new RecordingAllocator();
            keep->quiet = true;
            SimpleString::setStringAllocator(keep);
            GlobalSimpleStringCache* g = new GlobalSimpleStringCache();
            g->getAllocator()->free_memory(g_foreign[0], 10, __FILE__, __LINE__);
            g->getAllocator()->free_memory(g_foreign[1], 300, __FILE__, __LINE__);
            g->getAllocator()->free_memory(g_foreign[2], 10, __FILE__, __LINE__);
            std::string out = vh::fixture_output();
            unsigned long n = 0; size_t pos = 0;
            while ((pos = out.find("WARNING: Attempting to deallocate a String buffer", pos)) != std::string::npos) { n++; pos++; }
            vh::emit("warncount %lu", n);
            continue;       // the generic print/warn detection below is not used for this op
        }
        else if (w[0] == "alloc" && w.size() >= 2 && gcache) {       // through SimpleStringCacheAllocator::alloc_memory
            size_t size = (size_t) vh::to_u64(w[1]);
            vh::emit("> alloc %lu", (unsigned long) size);
            char* p = gcache->getAllocator()->alloc_memory(size, __FILE__, __LINE__);
            unsigned long id = rec.ids.count(p) ? rec.ids[p] : 0;
            handed[id] = p;
            if (w.size() >= 3) labels[w[2]] = id;
            if (size > 0) { memset(p, 'x', size - 1); p[size - 1] = 0; }
            vh::emit("ret %lu", id);
        }
        else if (w[0] == "dealloc" && w.size() >= 3 && gcache) {     // through SimpleStringCacheAllocator::free_memory
            size_t size = (size_t) vh::to_u64(w[2]);
            char* p = 0; unsigned long id = 0;
            if (w[1].compare(0, 7, "foreign") == 0) { id = FOREIGN_BASE + (unsigned long) (w[1][7] - '0') % 8; p = g_foreign[id - FOREIGN_BASE]; }
            else if (labels.count(w[1])) { id = labels[w[1]]; p = handed[id]; }
            if (p) { vh::emit("> dealloc %lu %lu", id, (unsigned long) size); gcache->getAllocator()->free_memory(p, size, __FILE__, __LINE__); }
            else vh::emit("> skip");
        }
        else if (w[0] == "gdestroy" && gcache) {
            vh::emit_op("gdestroy");
            strings.clear();          // the string objects are abandoned: their buffers go back with the cache
            delete gcache; gcache = 0;
            TestMemoryAllocator* cur = SimpleString::getStringAllocator();
            vh::emit("stralloc %s", cur == &rec ? "orig" : cur == &rec2 ? "other" : "unknown");
            SimpleString::setStringAllocator(savedStringAllocator);
            swapped = false;
        }
        else if (w[0] == "alloc" && w.size() >= 2 && cache) {        // alloc <size> [label]
            size_t size = (size_t) vh::to_u64(w[1]);
            vh::emit("> alloc %lu", (unsigned long) size);
            char* p = cache->alloc(size);
            unsigned long id = rec.ids.count(p) ? rec.ids[p] : 0;
            handed[id] = p;
            if (w.size() >= 3) labels[w[2]] = id;
            if (size > 0) { memset(p, 'x', size - 1); p[size - 1] = 0; }   // use every byte (ASan checks the size)
            vh::emit("ret %lu", id);
        }
        else if (w[0] == "dealloc" && w.size() >= 3 && cache) {      // dealloc <label|foreignN> <size>
            size_t size = (size_t) vh::to_u64(w[2]);
            char* p = 0; unsigned long id = 0;
            if (w[1].compare(0, 7, "foreign") == 0) { id = FOREIGN_BASE + (unsigned long) (w[1][7] - '0') % 8; p = g_foreign[id - FOREIGN_BASE]; }
            else if (labels.count(w[1])) { id = labels[w[1]]; p = handed[id]; }
            if (p) { vh::emit("> dealloc %lu %lu", id, (unsigned long) size); cache->dealloc(p, size); }
            else vh::emit("> skip");
        }
        else if (w[0] == "clearcache" && cache) { vh::emit_op("clearcache"); cache->clearCache(); }
        else if (w[0] == "clearall" && cache) { vh::emit_op("clearall"); cache->clearAllIncludingCurrentlyUsedMemory(); }
        else if (w[0] == "destroy" && cache) { vh::emit_op("destroy"); delete cache; cache = 0; }
        else vh::emit("> skip");
        if (vh::fixture_output_size() != before) {
            std::string out = vh::fixture_output().substr(before);
            if (out.find("WARNING: Attempting to deallocate a String buffer") != std::string::npos) vh::emit("warn");
            else vh::emit("print %s", vh::hex(out).c_str());
        }
    }
    rec.quiet = true; rec2.quiet = true;   // end-of-case cleanup is not part of the history
    strings.clear();
    if (gcache) { delete gcache; gcache = 0; SimpleString::setStringAllocator(savedStringAllocator); }
    if (cache) { cache->clearAllIncludingCurrentlyUsedMemory(); delete cache; }
}

void run_case(const vh::Case& c) {
    g_case = &c;
    size_t failures = vh::in_fixture(body);
    if (failures) vh::emit("fixture-failures %lu", (unsigned long) failures);
}

} // namespace

int main() { return vh::run_all(run_case); }
