// C14 correspondence harness.
//  (a) `f <class> ...`  constructs a failure class of TestFailure.h directly; operands live in exact-size
//      heap blocks (SimpleString buffers too: exact allocator), so a read outside them is an ASan error.
//  (b1) `sb ...`  a standalone SimpleStringBuffer
//  (b3) `ob ...`  a MemoryLeakOutputStringBuffer with fabricated leak nodes (exact-size content blocks)
//  (b2) `det ...` a private MemoryLeakDetector with a recording MemoryLeakFailure
// Observations: message bytes (hex), printed position, the copy-constructed failure (equal fields, length+FNV of its message); filled/limit (hook H2), strlen, canary, FNV of text.
#include <typeinfo>
#include <cxxabi.h>
#include <new>
#include "common.h"
#include "CppUTest/TestHarness.h"
#include "CppUTest/TestFailure.h"
#include "CppUTest/MemoryLeakDetector.h"
#include "CppUTest/TestMemoryAllocator.h"
#include "CppUTest/PlatformSpecificFunctions.h"

#undef new

namespace {

using vh::Words;

// ---------------------------------------------------------------- helpers

struct ExactAllocator : public TestMemoryAllocator {
    ExactAllocator() : TestMemoryAllocator("exact", "exact-alloc", "exact-free") {}
    char* alloc_memory(size_t size, const char*, size_t) CPPUTEST_OVERRIDE { return (char*) malloc(size); }
    void free_memory(char* memory, size_t, const char*, size_t) CPPUTEST_OVERRIDE { free(memory); }
};

unsigned fnv(const char* p, size_t n) {
    unsigned h = 2166136261u;
    for (size_t i = 0; i < n; i++) { h ^= (unsigned char) p[i]; h *= 16777619u; }
    return h;
}

// exact-size NUL-terminated copy; "N" = NULL
char* cstring_block(const std::string& word, std::vector<void*>& blocks) {
    if (word == "N") return 0;
    std::string s = vh::unhex(word);
    char* p = (char*) malloc(s.size() + 1);
    memcpy(p, s.data(), s.size());
    p[s.size()] = 0;
    blocks.push_back(p);
    return p;
}
// exact-size block without terminator
unsigned char* binary_block(const std::string& word, std::vector<void*>& blocks, size_t* len) {
    if (word == "N") { *len = 0; return 0; }
    std::string s = vh::unhex(word);
    unsigned char* p = (unsigned char*) malloc(s.size());
    if (s.size()) memcpy(p, s.data(), s.size());
    blocks.push_back(p);
    *len = s.size();
    return p;
}

bool is_nul_free_hex(const std::string& w) {     // operands are C strings: no NUL inside
    if (w == "N" || w == "-") return true;
    for (size_t i = 0; i + 1 < w.size(); i += 2) if (w[i] == '0' && w[i + 1] == '0') return false;
    return true;
}

void emit_message(const TestFailure& f) {
    SimpleString m = f.getMessage();
    std::string s(m.asCharString(), m.size());
    vh::emit("msg %s", vh::hex(s).c_str());
    const char* key = "difference starts at position ";
    size_t at = s.rfind(key);
    if (at == std::string::npos) vh::emit("pos none");
    else vh::emit("pos %llu", strtoull(s.c_str() + at + strlen(key), 0, 10));
    // the copy constructor (what JUnit/TeamCity style reporters keep): every field must survive the copy
    TestFailure c(f);
    bool same = c.getMessage() == f.getMessage() && c.getFileName() == f.getFileName() && c.getTestName() == f.getTestName()
             && c.getTestNameOnly() == f.getTestNameOnly() && c.getTestFileName() == f.getTestFileName()
             && c.getFailureLineNumber() == f.getFailureLineNumber() && c.getTestLineNumber() == f.getTestLineNumber();
    SimpleString cm = c.getMessage();
    vh::emit("copy %d %lu %u", same ? 1 : 0, (unsigned long) cm.size(), fnv(cm.asCharString(), cm.size()));
}

// ---------------------------------------------------------------- (a) failure classes

struct CustomException : public std::exception {
    std::string what_;
    explicit CustomException(const std::string& w) : what_(w) {}
    ~CustomException() throw() {}
    const char* what() const throw() { return what_.c_str(); }
};
namespace outer { namespace inner {
template <class A, class B> struct DeepException : public std::exception {
    std::string what_;
    explicit DeepException(const std::string& w) : what_(w) {}
    ~DeepException() throw() {}
    const char* what() const throw() { return what_.c_str(); }
};
} }

void do_failure(const Words& w, const std::string& raw) {
    std::vector<void*> blocks;
    UtestShell shell("Group", "Name", "file.cpp", 10);
    const char* file = "other.cpp";
    const size_t line = 20;
    const std::string& k = w[1];
    size_t n = w.size();
    for (size_t i = 2; i < n; i++)
        if (k != "longs" && k != "ulongs" && k != "longlongs" && k != "ulonglongs" && k != "sbytes" && k != "bits" && k != "doubles" && k != "binary")
            if (!is_nul_free_hex(w[i])) { vh::emit("> skip"); return; }
    if ((k == "equals" || k == "strequal" || k == "strnocase") && n == 5) {
        vh::emit_op(raw);
        const char* e = cstring_block(w[2], blocks);
        const char* a = cstring_block(w[3], blocks);
        SimpleString text(cstring_block(w[4], blocks));
        if (k == "equals") emit_message(EqualsFailure(&shell, file, line, e, a, text));
        else if (k == "strequal") emit_message(StringEqualFailure(&shell, file, line, e, a, text));
        else emit_message(StringEqualNoCaseFailure(&shell, file, line, e, a, text));
    }
    else if ((k == "equalsss" || k == "checkequal" || k == "comparison" || k == "check" || k == "contains") && n == 5
             && w[2] != "N" && w[3] != "N" && w[4] != "N") {
        vh::emit_op(raw);
        SimpleString e(cstring_block(w[2], blocks));
        SimpleString a(cstring_block(w[3], blocks));
        SimpleString text(cstring_block(w[4], blocks));
        if (k == "equalsss") emit_message(EqualsFailure(&shell, file, line, e, a, text));
        else if (k == "checkequal") emit_message(CheckEqualFailure(&shell, file, line, e, a, text));
        else if (k == "comparison") emit_message(ComparisonFailure(&shell, file, line, e, a, text));
        else if (k == "check") emit_message(CheckFailure(&shell, file, line, e, a, text));
        else emit_message(ContainsFailure(&shell, file, line, e, a, text));
    }
    else if (k == "fail" && n == 3 && w[2] != "N") {
        vh::emit_op(raw);
        emit_message(FailFailure(&shell, file, line, SimpleString(cstring_block(w[2], blocks))));
    }
    else if (k == "feature" && n == 4 && w[2] != "N" && w[3] != "N") {
        vh::emit_op(raw);
        SimpleString name(cstring_block(w[2], blocks));
        SimpleString text(cstring_block(w[3], blocks));
        emit_message(FeatureUnsupportedFailure(&shell, file, line, name, text));
    }
    else if (k == "doubles" && n == 6 && w[5] != "N") {
        vh::emit_op(raw);
        double e = strtod(w[2].c_str(), 0), a = strtod(w[3].c_str(), 0), t = strtod(w[4].c_str(), 0);
        SimpleString text(cstring_block(w[5], blocks));
        SimpleString es = StringFrom(e, 7), as = StringFrom(a, 7), ts = StringFrom(t, 7);
        int nan = (PlatformSpecificIsNan(e) || PlatformSpecificIsNan(a) || PlatformSpecificIsNan(t)) ? 1 : 0;
        // the C library's renderings are inputs of the model
        vh::emit("dbl %s %s %s %d", vh::hex(std::string(es.asCharString())).c_str(), vh::hex(std::string(as.asCharString())).c_str(),
                 vh::hex(std::string(ts.asCharString())).c_str(), nan);
        emit_message(DoublesEqualFailure(&shell, file, line, e, a, t, text));
    }
    else if ((k == "longs" || k == "longlongs" || k == "sbytes") && n == 5 && w[4] != "N") {
        vh::emit_op(raw);
        long long e = vh::to_i64(w[2]), a = vh::to_i64(w[3]);
        SimpleString text(cstring_block(w[4], blocks));
        if (k == "longs") emit_message(LongsEqualFailure(&shell, file, line, (long) e, (long) a, text));
        else if (k == "longlongs") emit_message(LongLongsEqualFailure(&shell, file, line, (cpputest_longlong) e, (cpputest_longlong) a, text));
        else emit_message(SignedBytesEqualFailure(&shell, file, line, (signed char) e, (signed char) a, text));
    }
    else if ((k == "ulongs" || k == "ulonglongs") && n == 5 && w[4] != "N") {
        vh::emit_op(raw);
        unsigned long long e = vh::to_u64(w[2]), a = vh::to_u64(w[3]);
        SimpleString text(cstring_block(w[4], blocks));
        if (k == "ulongs") emit_message(UnsignedLongsEqualFailure(&shell, file, line, (unsigned long) e, (unsigned long) a, text));
        else emit_message(UnsignedLongLongsEqualFailure(&shell, file, line, (cpputest_ulonglong) e, (cpputest_ulonglong) a, text));
    }
    else if (k == "binary" && n == 6 && w[5] != "N") {
        size_t le = 0, la = 0;
        size_t size = (size_t) vh::to_u64(w[4]);
        unsigned char* e = binary_block(w[2], blocks, &le);
        unsigned char* a = binary_block(w[3], blocks, &la);
        if ((e && le != size) || (a && la != size) || !is_nul_free_hex(w[5])) vh::emit("> skip");
        else {
            vh::emit_op(raw);
            SimpleString text(cstring_block(w[5], blocks));
            emit_message(BinaryEqualFailure(&shell, file, line, e, a, size, text));
        }
    }
    else if (k == "bits" && n == 7 && w[6] != "N" && vh::to_u64(w[5]) >= 1) {
        vh::emit_op(raw);
        SimpleString text(cstring_block(w[6], blocks));
        emit_message(BitsEqualFailure(&shell, file, line, (unsigned long) vh::to_u64(w[2]), (unsigned long) vh::to_u64(w[3]),
                                      (unsigned long) vh::to_u64(w[4]), (size_t) vh::to_u64(w[5]), text));
    }
    else if (k == "base" && n == 2) {
        vh::emit_op(raw);
        emit_message(TestFailure(&shell, file, line));
    }
    else if (k == "basemsg" && n == 3 && w[2] != "N") {
        vh::emit_op(raw);
        SimpleString m(cstring_block(w[2], blocks));
        emit_message(TestFailure(&shell, file, line, m));
        emit_message(TestFailure(&shell, m));
    }
    else if (k == "excunknown" && n == 2) {
        vh::emit_op(raw);
        emit_message(UnexpectedExceptionFailure(&shell));
    }
    else if (k == "exc" && n == 4 && w[3] != "N" && (w[2] == "runtime" || w[2] == "logic" || w[2] == "custom" || w[2] == "nested")) {
        vh::emit_op(raw);
        std::string what = vh::unhex(w[3]);
        std::exception* e = 0;
        if (w[2] == "runtime") e = new std::runtime_error(what);
        else if (w[2] == "logic") e = new std::logic_error(what);
        else if (w[2] == "custom") e = new CustomException(what);
        else e = new outer::inner::DeepException<int, CustomException>(what);
        // the type name is an input of the model (typeid + demangler are the platform's)
        int status = -1;
        const char* mangled = typeid(*e).name();
        char* dem = abi::__cxa_demangle(mangled, 0, 0, &status);
        std::string tn = (status == 0 && dem) ? dem : mangled;
        free(dem);
        vh::emit("typename %s", vh::hex(tn).c_str());
        emit_message(UnexpectedExceptionFailure(&shell, *e));
        delete e;
    }
    else vh::emit("> skip");
    for (size_t i = 0; i < blocks.size(); i++) free(blocks[i]);
}

// ---------------------------------------------------------------- buffers

const size_t BUFLEN = SimpleStringBuffer::SIMPLE_STRING_BUFFER_LEN;

void emit_state(SimpleStringBuffer* b) {
    const char* p = b->toString();
    size_t n = strnlen(p, BUFLEN);
    if (n >= BUFLEN) { vh::emit("st %lu %lu unterminated %d 0", (unsigned long) b->verifPositionsFilled(), (unsigned long) b->verifWriteLimit(), b->verifCanaryIntact() ? 1 : 0); return; }
    vh::emit("st %lu %lu %lu %d %u", (unsigned long) b->verifPositionsFilled(), (unsigned long) b->verifWriteLimit(),
             (unsigned long) n, b->verifCanaryIntact() ? 1 : 0, fnv(p, n));
}
void emit_text(SimpleStringBuffer* b) {
    const char* p = b->toString();
    size_t n = strnlen(p, BUFLEN);
    vh::emit("text %s", vh::hex(p, n).c_str());
}

struct RecFailure : public MemoryLeakFailure {
    std::vector<std::string> msgs;
    void fail(char* s) CPPUTEST_OVERRIDE { msgs.push_back(std::string(s, strnlen(s, BUFLEN))); }
};

struct NamedAllocator : public TestMemoryAllocator {
    std::string n_, a_, f_;
    NamedAllocator(const std::string& n, const std::string& a, const std::string& f) : TestMemoryAllocator(), n_(n), a_(a), f_(f) {
        name_ = n_.c_str(); alloc_name_ = a_.c_str(); free_name_ = f_.c_str();
    }
};

struct Keep {            // things that must outlive the objects that point to them
    std::vector<std::string*> strings;
    std::vector<NamedAllocator*> allocators;
    std::vector<void*> blocks;
    const char* str(const std::string& s) { strings.push_back(new std::string(s)); return strings.back()->c_str(); }
    TestMemoryAllocator* allocator(const std::string& allocName, const std::string& freeName) {
        for (size_t i = 0; i < allocators.size(); i++)
            if (allocators[i]->a_ == allocName && allocators[i]->f_ == freeName) return allocators[i];
        allocators.push_back(new NamedAllocator("named " + allocName, allocName, freeName));
        return allocators.back();
    }
};

void parse_report(const std::string& t) {
    const std::string footer = "Total number of leaks: ";
    size_t at = t.rfind(footer);
    if (at == std::string::npos) vh::emit("total none");
    else vh::emit("total %lld", strtoll(t.c_str() + at + footer.size(), 0, 10));
    vh::emit("notice %d", t.find("Too many memory leaks to report. Bailing out") != std::string::npos ? 1 : 0);
    size_t k = 0, p = 0;
    while ((p = t.find("Alloc num (", p)) != std::string::npos) { k++; p++; }
    vh::emit("listed %lu", (unsigned long) k);
}

// ---- (b2) bookkeeping that mirrors the detector's table order (hash = address % table size, newest first)
struct Rec {
    std::string label; char* mem; size_t size; std::string file; size_t line; TestMemoryAllocator* allocator;
    unsigned number; MemLeakPeriod period; bool corrupted; bool nolocation;
    std::string filew() const { return nolocation ? std::string("U") : vh::hex(file); }
};
bool in_period(const Rec& r, MemLeakPeriod period) {
    return period == mem_leak_period_all || r.period == period || (r.period != mem_leak_period_disabled && period == mem_leak_period_enabled);
}

struct World {
    Keep keep;
    SimpleStringBuffer* sb;
    MemoryLeakOutputStringBuffer* ob;
    std::vector<MemoryLeakDetectorNode*> nodes;
    RecFailure rec;
    MemoryLeakDetector* det;
    size_t det_buf_offset;
    std::vector<Rec> table[MEMORY_LEAK_HASH_TABLE_SIZE];
    MemLeakPeriod period;
    unsigned next_number;
    World() : sb(0), ob(0), det(0), det_buf_offset(0), period(mem_leak_period_disabled), next_number(1) {}
};

TestMemoryAllocator* allocator_of(World& w, const std::string& kind) {
    if (kind == "new") return defaultNewAllocator();
    if (kind == "newarray") return defaultNewArrayAllocator();
    if (kind == "malloc") return defaultMallocAllocator();
    // custom:<hex alloc name>
    std::string nm = vh::unhex(kind.substr(kind.find(':') == std::string::npos ? 0 : kind.find(':') + 1));
    return w.keep.allocator(nm, "free-" + nm);
}

SimpleStringBuffer* det_buffer(World& w) { return (SimpleStringBuffer*) (void*) ((char*) w.det + w.det_buf_offset); }

void emit_new_failures(World& w, size_t before) {
    for (size_t i = before; i < w.rec.msgs.size(); i++)
        vh::emit("fail %lu %u", (unsigned long) w.rec.msgs[i].size(), fnv(w.rec.msgs[i].data(), w.rec.msgs[i].size()));
}

void do_sb(World& w, const Words& x, const std::string& raw) {
    const std::string& k = x[1];
    if (k == "new" && x.size() == 2) { vh::emit_op(raw); delete w.sb; w.sb = new SimpleStringBuffer(); emit_state(w.sb); return; }
    if (!w.sb) { vh::emit("> skip"); return; }
    if (k == "add" && x.size() == 3 && is_nul_free_hex(x[2]) && x[2] != "N") {
        vh::emit_op(raw);
        std::vector<void*> blocks;
        char* s = cstring_block(x[2], blocks);
        w.sb->add("%s", s);
        free(s);
    }
    else if (k == "limit" && x.size() == 3) { vh::emit_op(raw); w.sb->setWriteLimit((size_t) vh::to_u64(x[2])); }
    else if (k == "reset" && x.size() == 2) { vh::emit_op(raw); w.sb->resetWriteLimit(); }
    else if (k == "clear" && x.size() == 2) { vh::emit_op(raw); w.sb->clear(); }
    else if (k == "dump" && x.size() == 3 && x[2] != "N") {
        vh::emit_op(raw);
        std::vector<void*> blocks; size_t len = 0;
        unsigned char* p = binary_block(x[2], blocks, &len);
        w.sb->addMemoryDump(p, len);
        free(p);
    }
    else if (k == "text" && x.size() == 2) { vh::emit_op(raw); emit_text(w.sb); }
    else { vh::emit("> skip"); return; }
    emit_state(w.sb);
}

void do_ob(World& w, const Words& x, const std::string& raw) {
    const std::string& k = x[1];
    if (k == "new" && x.size() == 2) {
        vh::emit_op(raw);
        w.ob = new MemoryLeakOutputStringBuffer();      // earlier ones stay alive (nodes may point into them)
        emit_state((SimpleStringBuffer*) (void*) w.ob->toString());
        return;
    }
    if (!w.ob) { vh::emit("> skip"); return; }
    SimpleStringBuffer* b = (SimpleStringBuffer*) (void*) w.ob->toString();
    if (k == "clear" && x.size() == 2) { vh::emit_op(raw); w.ob->clear(); }
    else if (k == "start" && x.size() == 2) { vh::emit_op(raw); w.ob->startMemoryLeakReporting(); }
    else if (k == "stop" && x.size() == 2) {
        vh::emit_op(raw);
        w.ob->stopMemoryLeakReporting();
        std::string text(w.ob->toString(), strnlen(w.ob->toString(), BUFLEN));
        vh::emit("text %s", vh::hex(text).c_str());
        parse_report(text);
    }
    else if (k == "leak" && x.size() == 7 && is_nul_free_hex(x[3]) && is_nul_free_hex(x[5]) && x[3] != "N" && x[5] != "N" && x[6] != "N") {
        // ob leak <number> <filehex> <line> <allocnamehex> <contenthex>
        vh::emit_op(raw);
        size_t len = 0;
        unsigned char* content = binary_block(x[6], w.keep.blocks, &len);
        std::string an = vh::unhex(x[5]);
        MemoryLeakDetectorNode* node = new MemoryLeakDetectorNode();
        node->init((char*) content, (unsigned) vh::to_u64(x[2]), len, w.keep.allocator(an, "free"), mem_leak_period_checking, 0,
                   w.keep.str(vh::unhex(x[3])), (size_t) vh::to_u64(x[4]));
        w.nodes.push_back(node);
        char pbuf[64]; snprintf(pbuf, sizeof pbuf, "%p", (void*) content);
        vh::emit("ptr %s", vh::hex(std::string(pbuf)).c_str());
        w.ob->reportMemoryLeak(node);
    }
    else if (k == "misuse" && x.size() == 10) {
        // ob misuse <kind> <allocFile> <allocLine> <allocSize> <allocName> <freeFile> <freeLine> <freeName>
        bool ok = true;
        for (size_t i = 3; i < 10; i++) if (x[i] == "N" || ((i == 3 || i == 6 || i == 7 || i == 9) && !is_nul_free_hex(x[i]))) ok = false;
        if (!ok || (x[2] != "nonalloc" && x[2] != "mismatch" && x[2] != "corrupt")) { vh::emit("> skip"); return; }
        TestMemoryAllocator* fa = w.keep.allocator("alloc-" + vh::unhex(x[9]), vh::unhex(x[9]));
        const char* ff = w.keep.str(vh::unhex(x[7]));
        size_t fl = (size_t) vh::to_u64(x[8]);
        size_t before = w.rec.msgs.size();
        if (x[2] == "nonalloc") {
            vh::emit("> ob misuse nonalloc %s %s %s %s", x[7].c_str(), x[8].c_str(), x[9].c_str(),
                     vh::hex(std::string(NullUnknownAllocator::defaultAllocator()->alloc_name())).c_str());
            w.ob->reportDeallocateNonAllocatedMemoryFailure(ff, fl, fa, &w.rec);
        }
        else {
            vh::emit_op(raw);
            MemoryLeakDetectorNode* node = new MemoryLeakDetectorNode();
            node->init(0, 1, (size_t) vh::to_u64(x[5]), w.keep.allocator(vh::unhex(x[6]), "free"), mem_leak_period_checking, 0,
                       w.keep.str(vh::unhex(x[3])), (size_t) vh::to_u64(x[4]));
            w.nodes.push_back(node);
            if (x[2] == "mismatch") w.ob->reportAllocationDeallocationMismatchFailure(node, ff, fl, fa, &w.rec);
            else w.ob->reportMemoryCorruptionFailure(node, ff, fl, fa, &w.rec);
        }
        emit_new_failures(w, before);
    }
    else if (k == "text" && x.size() == 2) { vh::emit_op(raw); emit_text(b); }
    else { vh::emit("> skip"); return; }
    emit_state(b);
}

void do_det(World& w, const Words& x, const std::string& raw) {
    const std::string& k = x[1];
    if (k == "new" && x.size() == 2) {
        vh::emit_op(raw);
        if (!w.det_buf_offset) {     // where outputBuffer_'s array lives inside a detector: ask a scratch detector
            RecFailure r0; MemoryLeakDetector* d0 = new MemoryLeakDetector(&r0);
            w.det_buf_offset = (size_t) (d0->report(mem_leak_period_all) - (const char*) d0);
            delete d0;
        }
        w.det = new MemoryLeakDetector(&w.rec);        // an earlier one is abandoned
        for (int i = 0; i < MEMORY_LEAK_HASH_TABLE_SIZE; i++) w.table[i].clear();
        w.period = mem_leak_period_disabled; w.next_number = 1;
        emit_state(det_buffer(w));
        return;
    }
    if (!w.det) { vh::emit("> skip"); return; }
    size_t before = w.rec.msgs.size();
    if (k == "enable" && x.size() == 2) { vh::emit_op(raw); w.det->enable(); w.period = mem_leak_period_enabled; }
    else if (k == "start" && x.size() == 2) { vh::emit_op(raw); w.det->startChecking(); w.period = mem_leak_period_checking; }
    else if (k == "stop" && x.size() == 2) { vh::emit_op(raw); w.det->stopChecking(); w.period = mem_leak_period_enabled; }
    else if (k == "clearacct" && x.size() == 2) {
        vh::emit_op(raw);
        w.det->clearAllAccounting(mem_leak_period_all);
        for (int i = 0; i < MEMORY_LEAK_HASH_TABLE_SIZE; i++) w.table[i].clear();
    }
    else if (k == "alloc0" && x.size() == 6) {
        // det alloc0 <label> <size> <allockind> <pattern>: the overload without a location
        for (int i = 0; i < MEMORY_LEAK_HASH_TABLE_SIZE; i++)
            for (size_t j = 0; j < w.table[i].size(); j++) if (w.table[i][j].label == x[2]) { vh::emit("> skip"); return; }
        vh::emit_op(raw);
        Rec r; r.label = x[2]; r.size = (size_t) vh::to_u64(x[3]); r.file = ""; r.line = 0; r.nolocation = true;
        r.allocator = allocator_of(w, x[4]); r.period = w.period; r.corrupted = false; r.number = w.next_number++;
        unsigned pat = (unsigned) vh::to_u64(x[5]);
        r.mem = w.det->allocMemory(r.allocator, r.size);
        for (size_t i = 0; i < r.size; i++) r.mem[i] = (char) ((pat + i * 7) & 0xff);
        std::vector<Rec>& bucket = w.table[(size_t) r.mem % MEMORY_LEAK_HASH_TABLE_SIZE];
        bucket.insert(bucket.begin(), r);
    }
    else if (k == "alloc" && x.size() == 8 && is_nul_free_hex(x[4]) && x[4] != "N") {
        // det alloc <label> <size> <filehex> <line> <allockind> <pattern>
        for (int i = 0; i < MEMORY_LEAK_HASH_TABLE_SIZE; i++)
            for (size_t j = 0; j < w.table[i].size(); j++) if (w.table[i][j].label == x[2]) { vh::emit("> skip"); return; }
        vh::emit_op(raw);
        Rec r; r.label = x[2]; r.size = (size_t) vh::to_u64(x[3]); r.file = vh::unhex(x[4]); r.line = (size_t) vh::to_u64(x[5]);
        r.allocator = allocator_of(w, x[6]); r.period = w.period; r.corrupted = false; r.nolocation = false; r.number = w.next_number++;
        unsigned pat = (unsigned) vh::to_u64(x[7]);
        r.mem = w.det->allocMemory(r.allocator, r.size, w.keep.str(r.file), r.line);
        for (size_t i = 0; i < r.size; i++) r.mem[i] = (char) ((pat + i * 7) & 0xff);
        std::vector<Rec>& bucket = w.table[(size_t) r.mem % MEMORY_LEAK_HASH_TABLE_SIZE];
        bucket.insert(bucket.begin(), r);
    }
    else if ((k == "free" && x.size() == 6) || (k == "free0" && x.size() == 4) || (k == "corrupt" && x.size() == 3)) {
        // det free <label> <allockind> <filehex> <line>    /    det corrupt <label>
        for (int i = 0; i < MEMORY_LEAK_HASH_TABLE_SIZE; i++)
            for (size_t j = 0; j < w.table[i].size(); j++) if (w.table[i][j].label == x[2]) {
                Rec& r = w.table[i][j];
                if (k == "corrupt") { vh::emit_op(raw); r.mem[r.size] = 'X'; r.corrupted = true; emit_state(det_buffer(w)); return; }
                bool noloc = (k == "free0");
                if (!noloc && (x[4] == "N" || !is_nul_free_hex(x[4]))) { vh::emit("> skip"); return; }
                TestMemoryAllocator* fa = allocator_of(w, x[3]);
                bool match = (fa->actualAllocator() == r.allocator->actualAllocator()) || fa->actualAllocator()->isOfEqualType(r.allocator->actualAllocator());
                const char* kind = !match ? "mismatch" : r.corrupted ? "corrupt" : "ok";
                // file word `U` = the call gave no location (the code substitutes its own text and line 0)
                vh::emit("> det free %s %s %lu %lu %s %s %s %s", kind, r.filew().c_str(), (unsigned long) r.line, (unsigned long) r.size,
                         vh::hex(std::string(r.allocator->alloc_name())).c_str(), noloc ? "U" : x[4].c_str(), noloc ? "0" : x[5].c_str(),
                         vh::hex(std::string(fa->free_name())).c_str());
                char* mem = r.mem;
                w.table[i].erase(w.table[i].begin() + (long) j);
                if (noloc) w.det->deallocMemory(fa, mem);
                else w.det->deallocMemory(fa, mem, w.keep.str(vh::unhex(x[4])), (size_t) vh::to_u64(x[5]));
                emit_new_failures(w, before);
                emit_state(det_buffer(w));
                return;
            }
        vh::emit("> skip"); return;
    }
    else if (k == "freebad" && x.size() == 5 && is_nul_free_hex(x[2]) && x[2] != "N") {
        // det freebad <filehex> <line> <allockind>
        static char never_allocated[16];
        TestMemoryAllocator* fa = allocator_of(w, x[4]);
        vh::emit("> det freebad %s %s %s %s", x[2].c_str(), x[3].c_str(), vh::hex(std::string(fa->free_name())).c_str(),
                 vh::hex(std::string(NullUnknownAllocator::defaultAllocator()->alloc_name())).c_str());
        w.det->deallocMemory(fa, never_allocated, w.keep.str(vh::unhex(x[2])), (size_t) vh::to_u64(x[3]));
    }
    else if (k == "freebad0" && x.size() == 3) {
        // det freebad0 <allockind>: deallocMemory(allocator, memory) on a pointer that was never allocated
        static char never_allocated0[16];
        TestMemoryAllocator* fa = allocator_of(w, x[2]);
        vh::emit("> det freebad U 0 %s %s", vh::hex(std::string(fa->free_name())).c_str(),
                 vh::hex(std::string(NullUnknownAllocator::defaultAllocator()->alloc_name())).c_str());
        w.det->deallocMemory(fa, never_allocated0);
    }
    else if (k == "report" && x.size() == 3 && (x[2] == "all" || x[2] == "checking" || x[2] == "enabled")) {
        vh::emit_op(raw);
        MemLeakPeriod p = x[2] == "all" ? mem_leak_period_all : x[2] == "checking" ? mem_leak_period_checking : mem_leak_period_enabled;
        for (int i = 0; i < MEMORY_LEAK_HASH_TABLE_SIZE; i++)
            for (size_t j = 0; j < w.table[i].size(); j++) {
                const Rec& r = w.table[i][j];
                if (!in_period(r, p)) continue;
                char pbuf[64]; snprintf(pbuf, sizeof pbuf, "%p", (void*) r.mem);
                // environment: the leaks of the period in table order, with the C library's %p text
                vh::emit("leak %u %s %lu %s %s %s", r.number, r.filew().c_str(), (unsigned long) r.line,
                         vh::hex(std::string(r.allocator->alloc_name())).c_str(), vh::hex(std::string(pbuf)).c_str(), vh::hex(r.mem, r.size).c_str());
            }
        const char* t = w.det->report(p);
        std::string text(t, strnlen(t, BUFLEN));
        vh::emit("text %s", vh::hex(text).c_str());
        parse_report(text);
    }
    else if (k == "text" && x.size() == 2) { vh::emit_op(raw); emit_text(det_buffer(w)); }
    else { vh::emit("> skip"); return; }
    emit_new_failures(w, before);
    emit_state(det_buffer(w));
}

void run_case(const vh::Case& c) {
    static ExactAllocator exact;
    SimpleString::setStringAllocator(&exact);
    World* w = new World();
    // layout assumption used to reach the H2 accessors: buffer_ is the first member
    { SimpleStringBuffer probe; if ((void*) probe.toString() != (void*) &probe) { vh::emit("layout-assumption-broken"); return; } }
    for (size_t i = 0; i < c.ops.size(); i++) {
        const Words& x = c.ops[i];
        if (x.size() < 2) { vh::emit("> skip"); continue; }
        if (x[0] == "f") do_failure(x, c.raw[i]);
        else if (x[0] == "sb") do_sb(*w, x, c.raw[i]);
        else if (x[0] == "ob") do_ob(*w, x, c.raw[i]);
        else if (x[0] == "det") do_det(*w, x, c.raw[i]);
        else vh::emit("> skip");
    }
    SimpleString::setStringAllocator(0);
}

} // namespace

int main() { return vh::run_all(run_case, 60); }
