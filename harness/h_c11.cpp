// C11 correspondence harness: separate-process mode.
//
// A case describes a registry of N tests (all run with setRunTestsInSeperateProcess()).  Every
// test is either
//   (a) STUBBED: PlatformSpecificFork / PlatformSpecificWaitPid replay the outcome list given
//       by the op lines (fork "succeeds" by returning this process' own pid, so the parent's
//       direct kill(pid, SIGCONT) lands on a counting handler here), or
//   (b) REAL: a real child is forked through the seam; it performs the given actions (die by a
//       signal, _exit(n), fail a check / report K+1 failures from a plugin action (`fail K`), stop itself) in the given phase (plugin pre-action,
//       setup, body, teardown, plugin post-action).  The results of the real waitpid are
//       recorded as environment lines (`rwait`).
//
// ops:   tests N | fork T fail | w T eintr | w T err E | w T st HEX | inj T K |
//        real T PHASE (ACTION ARG)+ | grp T G | cli | tick T USEC | run
//   nproc0 : the case process gives up root (setgid/setuid 65534) and sets RLIMIT_NPROC to 0, so that the
//            tree's REAL fork seam fails with EAGAIN for every real test of the registry; observation
//            `forkfail supported` / `forkfail unsupported` (a probe fork() still succeeded: nothing is run,
//            the rest of the case is skipped).  A real test whose fork failed prints `forked T realfail`.
//   tick T USEC : while the parent waits for real test T, a POSIX interval timer delivers SIGUSR1 to the
//                 runner every USEC microseconds through a handler installed WITHOUT SA_RESTART, so the REAL
//                 waitpid seam (the tree's own PlatformSpecificWaitPid implementation, which this harness
//                 calls for real tests) is interrupted; `ticks T n ms` (informational) reports the number of
//                 handler invocations during the test and its wall time.  (action `sleep MS`: the child sleeps)
//   ign T : registry entry T is an IgnoredUtestShell (an IGNORE_TEST with the same acting setup/body/teardown): it is run only
//           when run-ignored is on, and then it must be forked like every other test
//   ri    : registry.setRunIgnored() (what -ri does; in cli mode give `-ri` on the cli line instead)
//   grp T G : test T belongs to group "gG" (adjacent tests with the same name form a group)
//   cli [ARG...] : the run goes through CommandLineTestRunner with argv {"runner", ARG...} (bare `cli` = `-p`;
//             the registry is NOT put into separate-process mode by the harness).  ARGs: `-p` (required, anywhere)
//             and any of -c -v -vv -ojunit -oteamcity -r1 -b -s<seed> -ri -gg -nt -xgZZZ -xnZZZ, which do not
//             change which tests run, and the repeat / shuffle options in every spelling: `-r` (bare: twice), `-r2`, `-r3`,
//             `-r N`, bare `-s`, `-s N` (N = 1, 2, 3 as an argument of its own, only directly after a bare -r / -s).
//             None of them takes a `-p` standing after it as its value.  When the run is repeated, every repetition
//             after the first is announced by `round K` (K = 2, 3, ...); the scripted answers of the stubbed tests start again in every repetition.  The runner creates its own Console/JUnit/TeamCity output (recording
//             subclasses); PlatformSpecificFPuts appends to a file shared by parent and children, FOpen/FClose
//             are stubbed (JUnit "files" go to the same capture).
// observations after `> run`, per test in registry order:
//   started T / forked T fail|ok|real / rwait T ... / starved T / consumed T n / conts T n /
//   childst T HEX (real: final wait status, core flag masked) / fail T <hex first line of the message> / ended T
//   inrunner T : the test's code was executed inside the runner process (it must never be: every test
//                of a separate-process run is forked).  A real test then really performs its action
//                in the runner (the runner dies -> `crash ...`), except `stop`, which would wedge the harness.
// then runcount, failures, overall, summary, [exitcode, childtext T n] (cli), phases (informational), deadline.
#include <errno.h>
#include <fcntl.h>
#include <sys/prctl.h>
#include <sys/mman.h>
#include <sys/resource.h>
#include <time.h>
#include "common.h"
#include "CppUTest/TestHarness.h"
#include "CppUTest/TestRegistry.h"
#include "CppUTest/TestOutput.h"
#include "CppUTest/TestResult.h"
#include "CppUTest/TestPlugin.h"
#include "CppUTest/CommandLineTestRunner.h"
#include "CppUTest/JUnitTestOutput.h"
#include "CppUTest/TeamCityTestOutput.h"
#include "CppUTest/PlatformSpecificFunctions.h"

namespace {

enum Phase { PH_PRE = 0, PH_SETUP, PH_BODY, PH_TEARDOWN, PH_POST, PH_NONE };
const char* const PHASE_NAMES[] = { "pre", "setup", "body", "teardown", "post" };

struct Outcome { int kind; int err; unsigned int status; };   // kind 0 eintr, 1 error, 2 status
struct Action { std::string what; long arg; };

struct TestSpec {
    bool real;
    bool forkFails;
    std::vector<Outcome> outs;       // stubbed
    size_t next;                     // next scripted outcome
    bool starved;
    int phase;                       // real
    std::vector<Action> actions;
    int inject;                      // EINTR results injected before the first real waitpid
    int injected;
    pid_t pid;                       // real child, 0 when reaped / none
    int conts;
    int group;
    bool inRunner;
    bool ignoredKind;                // the registry entry is an IgnoredUtestShell (IGNORE_TEST); run only with run-ignored
    long tickUsec;                   // > 0: periodic SIGUSR1 (no SA_RESTART) while the parent waits
    long ticks, elapsedMs;
    bool realForkFailed;
    bool haveFinal; unsigned int finalStatus;   // real: the status with which the real waitpid reported the child's end
    std::vector<std::string> envLines, failLines;
    std::string forkLine;
    TestSpec() : real(false), forkFails(false), next(0), starved(false), phase(PH_NONE), inject(0), injected(0), pid(0), conts(0), group(0), inRunner(false), ignoredKind(false), tickUsec(0), ticks(0), elapsedMs(0), realForkFailed(false), haveFinal(false), finalStatus(0) {}
};

std::vector<TestSpec> g_tests;
std::vector<UtestShell*> g_shells;
bool g_run_ignored = false;          // API mode: registry.setRunIgnored() (cli mode: -ri)
int g_cur = -1;                      // test the registry is running (parent) / this child is
bool g_in_child = false;             // true in a forked test child: nothing may be printed
volatile sig_atomic_t g_sigconts = 0;
volatile sig_atomic_t g_deadline = 0;
int g_marker_fd = -1;
int g_console_fd = -1;               // cli mode: everything "printed to stdout" by parent and children
bool g_cli = false;
std::vector<std::string> g_cli_args;
int g_rounds = 0;                    // repetitions of the run started so far (cli: -r)
int g_rec_instances = 0;             // the first recording output created for a run is the one that records
long g_rec_started = 0, g_rec_failures = 0;
bool g_nproc0 = false;               // the case process can no longer fork (RLIMIT_NPROC 0, unprivileged)
pid_t g_case_pid = 0;
int (*g_tree_fork)(void) = 0;                    // the tree's own seam implementations
int (*g_tree_waitpid)(int, int*, int) = 0;
volatile sig_atomic_t g_ticks = 0;
timer_t g_timer;
bool g_timer_on = false;
struct timespec g_tick_t0;

extern "C" void on_tick(int) { g_ticks++; }

void start_ticks(long usec) {
    struct sigaction sa; memset(&sa, 0, sizeof sa);
    sa.sa_handler = on_tick; sa.sa_flags = 0;            // deliberately no SA_RESTART
    sigemptyset(&sa.sa_mask);
    sigaction(SIGUSR1, &sa, 0);
    struct sigevent sev; memset(&sev, 0, sizeof sev);
    sev.sigev_notify = SIGEV_SIGNAL; sev.sigev_signo = SIGUSR1;
    g_ticks = 0;
    clock_gettime(CLOCK_MONOTONIC, &g_tick_t0);
    if (timer_create(CLOCK_MONOTONIC, &sev, &g_timer) != 0) return;
    struct itimerspec its;
    its.it_value.tv_sec = usec / 1000000; its.it_value.tv_nsec = (usec % 1000000) * 1000;
    its.it_interval = its.it_value;
    timer_settime(g_timer, 0, &its, 0);
    g_timer_on = true;
}

void stop_ticks() {
    if (!g_timer_on) return;
    timer_delete(g_timer);
    g_timer_on = false;
    signal(SIGUSR1, SIG_IGN);
}

void flush_test_lines(int t) {
    TestSpec& s = g_tests[(size_t) t];
    if (!s.forkLine.empty()) vh::emit("%s", s.forkLine.c_str());
    for (size_t i = 0; i < s.envLines.size(); i++) vh::emit("%s", s.envLines[i].c_str());
    if (s.starved) vh::emit("starved %d", t);
    if (s.tickUsec > 0 && s.real) vh::emit("ticks %d %ld %ld", t, s.ticks, s.elapsedMs);
    if (!s.real) { vh::emit("consumed %d %lu", t, (unsigned long) s.next); vh::emit("conts %d %d", t, s.conts); }
    // the wait status the child ended with (core-dump flag masked: it depends on the machine's limits)
    if (s.real && s.haveFinal) vh::emit("childst %d %x", t, WIFSIGNALED((int) s.finalStatus) ? (s.finalStatus & 0x7f) : s.finalStatus);
    for (size_t i = 0; i < s.failLines.size(); i++) vh::emit("%s", s.failLines[i].c_str());
    s.forkLine.clear(); s.envLines.clear(); s.failLines.clear();
}

// ---------------------------------------------------------------- deadline and cleanup

void kill_children() {
    for (size_t i = 0; i < g_tests.size(); i++)
        if (g_tests[i].pid > 0) { kill(g_tests[i].pid, SIGKILL); kill(g_tests[i].pid, SIGCONT); }
}

extern "C" void on_alarm(int) {
    if (getpid() != g_case_pid) _exit(99);
    g_deadline++;
    kill_children();
    if (g_deadline >= 2) {
        // the parent is not even blocked in waitpid: give up on the case (reported as `crash timeout`)
        if (g_cur >= 0) flush_test_lines(g_cur);
        fflush(stdout);
        signal(SIGALRM, SIG_DFL);
        raise(SIGALRM);
    }
    alarm(3);
}

extern "C" void on_cont(int) { g_sigconts++; }

void reap_all() {
    for (size_t i = 0; i < g_tests.size(); i++) {
        pid_t p = g_tests[i].pid;
        if (p <= 0) continue;
        kill(p, SIGKILL); kill(p, SIGCONT);
        int st; while (waitpid(p, &st, 0) < 0 && errno == EINTR) { }
        g_tests[i].pid = 0;
    }
}

// ---------------------------------------------------------------- seams

extern "C" int seam_fork(void) {
    if (g_cur < 0 || (size_t) g_cur >= g_tests.size()) return -1;
    TestSpec& s = g_tests[(size_t) g_cur];
    char buf[64];
    if (s.forkFails) { snprintf(buf, sizeof buf, "forked %d fail", g_cur); s.forkLine = buf; errno = EAGAIN; return -1; }
    if (!s.real) { snprintf(buf, sizeof buf, "forked %d ok", g_cur); s.forkLine = buf; return (int) getpid(); }
    fflush(stdout); fflush(stderr);
    pid_t p = g_tree_fork ? (pid_t) g_tree_fork() : fork();
    int fork_errno = errno;
    if (p != 0) {
        snprintf(buf, sizeof buf, "forked %d %s", g_cur, p < 0 ? "realfail" : "real"); s.forkLine = buf;
        if (p < 0) { s.realForkFailed = true; errno = fork_errno; return (int) p; }
    }
    if (p == 0) {
        g_in_child = true;
        signal(SIGUSR1, SIG_IGN);
        prctl(PR_SET_PDEATHSIG, SIGKILL);
        if (getppid() != g_case_pid) _exit(98);
        signal(SIGALRM, SIG_DFL); signal(SIGCONT, SIG_DFL);
        alarm(30);
        return 0;
    }
    if (p > 0) {
        s.pid = p;
        if (s.tickUsec > 0) start_ticks(s.tickUsec);
    }
    return (int) p;
}

extern "C" int seam_waitpid(int pid, int* status, int options) {
    TestSpec& s = g_tests[(size_t) g_cur];
    char buf[96];
    if (!s.real) {
        if (s.next >= s.outs.size()) {         // the script is exhausted: the child "exits normally"
            s.starved = true; s.next++;
            *status = 0;
            return pid;
        }
        const Outcome& o = s.outs[s.next++];
        if (o.kind == 0) { errno = EINTR; return -1; }
        if (o.kind == 1) { errno = o.err; return -1; }
        *status = (int) o.status;
        return pid;
    }
    if (s.injected < s.inject) {
        s.injected++;
        snprintf(buf, sizeof buf, "rwait %d eintr", g_cur); s.envLines.push_back(buf);
        errno = EINTR; return -1;
    }
    // the tree's own PlatformSpecificWaitPid implementation (not a bare waitpid): what it does with
    // an interrupted wait is part of what is checked
    int r = g_tree_waitpid ? g_tree_waitpid(pid, status, options) : waitpid(pid, status, options);
    int e = errno;
    if (r < 0 && e == EINTR) snprintf(buf, sizeof buf, "rwait %d eintr", g_cur);
    else if (r < 0) snprintf(buf, sizeof buf, "rwait %d err %d", g_cur, e);
    else {
        snprintf(buf, sizeof buf, "rwait %d st %x", g_cur, (unsigned int) *status);
        if (WIFEXITED(*status) || WIFSIGNALED(*status)) { s.pid = 0; s.haveFinal = true; s.finalStatus = (unsigned int) *status; }
    }
    s.envLines.push_back(buf);
    errno = e;
    return r;
}

// ---------------------------------------------------------------- what a real child does

void marker(int phase) {
    char buf[32];
    int n = snprintf(buf, sizeof buf, "%d:%s;", g_cur, PHASE_NAMES[phase]);
    if (g_marker_fd >= 0) { ssize_t w = write(g_marker_fd, buf, (size_t) n); (void) w; }
}

void act(int phase, UtestShell* test, TestResult* result) {
    if (g_cur < 0) return;
    TestSpec& s = g_tests[(size_t) g_cur];
    if (!g_in_child && !s.inRunner) {          // this test's code runs inside the runner process
        s.inRunner = true;
        vh::emit("inrunner %d", g_cur);
        fflush(stdout);
    }
    if (!s.real) return;
    marker(phase);
    if (s.phase != phase) return;
    for (size_t i = 0; i < s.actions.size(); i++) {
        const Action& a = s.actions[i];
        // a stopped runner would wedge the harness: stop actions are not performed inside the runner
        if (!g_in_child && (a.what == "stop" || (a.what == "signal" &&
                (a.arg == SIGSTOP || a.arg == SIGTSTP || a.arg == SIGTTIN || a.arg == SIGTTOU)))) continue;
        if (a.what == "signal") {
            int sig = (int) a.arg;
            if (sig != SIGKILL && sig != SIGSTOP) signal(sig, SIG_DFL);
            sigset_t set; sigemptyset(&set); sigaddset(&set, sig); sigprocmask(SIG_UNBLOCK, &set, 0);
            raise(sig);
        }
        else if (a.what == "exit") _exit((int) a.arg);
        else if (a.what == "sleep") {
            struct timespec ts; ts.tv_sec = a.arg / 1000; ts.tv_nsec = (a.arg % 1000) * 1000000L;
            while (nanosleep(&ts, &ts) != 0 && errno == EINTR) { }
        }
        else if (a.what == "stop") kill(getpid(), SIGSTOP);
        else if (a.what == "fail") {
            char msg[64]; snprintf(msg, sizeof msg, "childfailure-of-test-%d-", g_cur);
            // a plugin action reports arg+1 failures straight into the result (as MemoryLeakWarningPlugin does);
            // a failed check in setup / body / teardown leaves the phase at once
            if (test && result) for (long k = 0; k <= a.arg && k < 1024; k++) result->addFailure(TestFailure(test, msg));
            else FAIL(msg);
        }
    }
}

void fn_setup() { act(PH_SETUP, 0, 0); }
void fn_body() { act(PH_BODY, 0, 0); }
void fn_teardown() { act(PH_TEARDOWN, 0, 0); }

// an IGNORE_TEST whose setup / body / teardown are the same acting functions
class ActingUtest : public Utest {
public:
    void setup() CPPUTEST_OVERRIDE { fn_setup(); }
    void testBody() CPPUTEST_OVERRIDE { fn_body(); }
    void teardown() CPPUTEST_OVERRIDE { fn_teardown(); }
};
class IgnoredActingShell : public IgnoredUtestShell {
public:
    Utest* createTest() CPPUTEST_OVERRIDE { return new ActingUtest; }
};

class ActingPlugin : public TestPlugin {
public:
    ActingPlugin() : TestPlugin("ActingPlugin") {}
    void preTestAction(UtestShell& t, TestResult& r) CPPUTEST_OVERRIDE { act(PH_PRE, &t, &r); }
    void postTestAction(UtestShell& t, TestResult& r) CPPUTEST_OVERRIDE { act(PH_POST, &t, &r); }
};

// ---------------------------------------------------------------- recording output

template <class Base> class Recording : public Base {
    bool primary_;
public:
    Recording() : primary_(g_rec_instances++ == 0) {}
    void printCurrentTestStarted(const UtestShell& test) CPPUTEST_OVERRIDE {
        Base::printCurrentTestStarted(test);
        if (g_in_child || !primary_) return;
        g_rec_started++;
        g_cur = -1;
        for (size_t k = 0; k < g_shells.size(); k++) if (&test == g_shells[k]) g_cur = (int) k;
        g_sigconts = 0;
        vh::emit("started %d", g_cur);
    }
    void printTestsStarted() CPPUTEST_OVERRIDE {             // once per repetition (`TestResult::testsStarted`)
        Base::printTestsStarted();
        if (g_in_child || !primary_) return;
        if (++g_rounds < 2) return;
        reap_all();
        for (size_t k = 0; k < g_tests.size(); k++) {          // every repetition replays the same scenario
            TestSpec& s = g_tests[k];
            s.next = 0; s.starved = false; s.injected = 0; s.conts = 0; s.inRunner = false;
            s.ticks = 0; s.elapsedMs = 0; s.realForkFailed = false; s.haveFinal = false; s.finalStatus = 0;
        }
        vh::emit("round %d", g_rounds);
    }
    void printCurrentTestEnded(const TestResult& res) CPPUTEST_OVERRIDE {
        Base::printCurrentTestEnded(res);
        if (g_in_child || !primary_) return;
        if (g_cur >= 0) {
            TestSpec& s = g_tests[(size_t) g_cur];
            if (g_timer_on) {
                stop_ticks();
                struct timespec t1; clock_gettime(CLOCK_MONOTONIC, &t1);
                s.ticks = (long) g_ticks;
                s.elapsedMs = (long) ((t1.tv_sec - g_tick_t0.tv_sec) * 1000 + (t1.tv_nsec - g_tick_t0.tv_nsec) / 1000000);
                if (s.pid > 0) {                 // the parent gave up on a child that is still running: reap it now
                    kill(s.pid, SIGKILL); kill(s.pid, SIGCONT);
                    int st; while (waitpid(s.pid, &st, 0) < 0 && errno == EINTR) { }
                    s.pid = 0;
                }
            }
            s.conts = (int) g_sigconts;
            flush_test_lines(g_cur);
        }
        vh::emit("ended %d", g_cur);
        g_cur = -1;
    }
    void printFailure(const TestFailure& failure) CPPUTEST_OVERRIDE {
        Base::printFailure(failure);
        if (g_in_child || !primary_) return;
        g_rec_failures++;
        std::string msg(failure.getMessage().asCharString());
        size_t nl = msg.find('\n');
        if (nl != std::string::npos) msg = msg.substr(0, nl);
        int t = -1;
        std::string name(failure.getTestNameOnly().asCharString());
        if (name.size() > 1 && name[0] == 't') t = atoi(name.c_str() + 1);
        char buf[32]; snprintf(buf, sizeof buf, "fail %d ", t);
        std::string line = std::string(buf) + vh::hex(msg);
        if (g_cur >= 0) g_tests[(size_t) g_cur].failLines.push_back(line);
        else vh::emit("%s", line.c_str());
    }
};
typedef Recording<StringBufferTestOutput> RecordingOutput;

// cli mode: the console output the runner creates itself, recorded, printing through the seam below
class CliRunner : public CommandLineTestRunner {
public:
    CliRunner(int ac, const char* const* av, TestRegistry* r) : CommandLineTestRunner(ac, av, r) {}
protected:
    TestOutput* createConsoleOutput() CPPUTEST_OVERRIDE { return new Recording<ConsoleTestOutput>; }
    TestOutput* createTeamCityOutput() CPPUTEST_OVERRIDE { return new Recording<TeamCityTestOutput>; }
    TestOutput* createJUnitOutput(const SimpleString& packageName) CPPUTEST_OVERRIDE {
        Recording<JUnitTestOutput>* j = new Recording<JUnitTestOutput>;
        j->setPackageName(packageName);
        return j;
    }
};

bool valid_cli_arg(const std::string& a) {
    static const char* const fixed[] = { "-p", "-c", "-v", "-vv", "-ojunit", "-oteamcity", "-r1", "-b", "-ri", "-gg", "-nt",
                                         "-xgZZZ", "-xnZZZ", "-r", "-r2", "-r3", "-s", "1", "2", "3" };
    for (size_t i = 0; i < sizeof fixed / sizeof fixed[0]; i++) if (a == fixed[i]) return true;
    if (a.size() >= 3 && a.size() <= 7 && a[0] == '-' && a[1] == 's' && a[2] >= '1' && a[2] <= '9') {
        for (size_t i = 3; i < a.size(); i++) if (a[i] < '0' || a[i] > '9') return false;
        return true;
    }
    return false;
}

extern "C" PlatformSpecificFile seam_fopen(const char*, const char*) { return (PlatformSpecificFile) &g_console_fd; }
extern "C" void seam_fclose(PlatformSpecificFile) { }

extern "C" void seam_fputs(const char* str, PlatformSpecificFile) {
    if (g_console_fd >= 0) { ssize_t w = write(g_console_fd, str, strlen(str)); (void) w; }
}
extern "C" void seam_flush(void) { }

std::string read_console() {
    std::string out; char buf[4096]; ssize_t r;
    if (g_console_fd < 0) return out;
    lseek(g_console_fd, 0, SEEK_SET);
    while ((r = read(g_console_fd, buf, sizeof buf)) > 0) out.append(buf, (size_t) r);
    return out;
}

size_t count_occurrences(const std::string& hay, const std::string& needle) {
    size_t n = 0, pos = 0;
    while ((pos = hay.find(needle, pos)) != std::string::npos) { n++; pos += needle.size(); }
    return n;
}

int phase_of(const std::string& s) {
    for (int i = 0; i < 5; i++) if (s == PHASE_NAMES[i]) return i;
    return PH_NONE;
}

void run_registry() {
    size_t n = g_tests.size();
    int fds[2] = { -1, -1 };
    if (pipe(fds) == 0) { fcntl(fds[0], F_SETFL, O_NONBLOCK); fcntl(fds[1], F_SETFL, O_NONBLOCK); g_marker_fd = fds[1]; }

    struct sigaction sa; memset(&sa, 0, sizeof sa);
    sa.sa_handler = on_alarm; sa.sa_flags = SA_RESTART; sigaction(SIGALRM, &sa, 0);
    sa.sa_handler = on_cont; sigaction(SIGCONT, &sa, 0);
    const char* dl = getenv("VH_C11_DEADLINE");
    alarm(dl ? (unsigned) atoi(dl) : g_nproc0 ? 2 : 8);    // nothing can be forked under nproc0: nothing takes long

    int (*savedFork)(void) = PlatformSpecificFork;
    int (*savedWait)(int, int*, int) = PlatformSpecificWaitPid;
    g_tree_fork = savedFork;
    g_tree_waitpid = savedWait;
    PlatformSpecificFork = seam_fork;
    PlatformSpecificWaitPid = seam_waitpid;
    void (*savedFPuts)(const char*, PlatformSpecificFile) = PlatformSpecificFPuts;
    void (*savedFlush)(void) = PlatformSpecificFlush;
    PlatformSpecificFile (*savedFOpen)(const char*, const char*) = PlatformSpecificFOpen;
    void (*savedFClose)(PlatformSpecificFile) = PlatformSpecificFClose;
    g_rec_instances = 0; g_rec_started = 0; g_rec_failures = 0; g_rounds = 0;
    if (g_cli) {
        PlatformSpecificFOpen = seam_fopen;
        PlatformSpecificFClose = seam_fclose;
        g_console_fd = memfd_create("c11console", 0);
        PlatformSpecificFPuts = seam_fputs;
        PlatformSpecificFlush = seam_flush;
    }
    {
        RecordingOutput output;
        TestResult result(output);
        TestRegistry registry;
        ActingPlugin plugin;
        TestRegistry* savedRegistry = TestRegistry::getCurrentRegistry();
        registry.setCurrentRegistry(&registry);
        registry.installPlugin(&plugin);
        if (!g_cli) registry.setRunTestsInSeperateProcess();
        if (!g_cli && g_run_ignored) registry.setRunIgnored();
        std::vector<std::string> names(n), groups(n);
        g_shells.assign(n, (UtestShell*) 0);
        std::vector<ExecFunctionTestShell*> execShells;
        std::vector<ExecFunctionWithoutParameters*> bodies;
        for (size_t k = n; k-- > 0;) {            // addTest prepends: add in reverse so that test 0 runs first
            UtestShell* sh;
            if (g_tests[k].ignoredKind) sh = new IgnoredActingShell;
            else {
                ExecFunctionTestShell* es = new ExecFunctionTestShell(fn_setup, fn_teardown);
                ExecFunctionWithoutParameters* b = new ExecFunctionWithoutParameters(fn_body);
                es->testFunction_ = b; bodies.push_back(b); execShells.push_back(es);
                sh = es;
            }
            char nm[24]; snprintf(nm, sizeof nm, "t%lu", (unsigned long) k); names[k] = nm;
            sh->setTestName(names[k].c_str());
            snprintf(nm, sizeof nm, "g%d", g_tests[k].group); groups[k] = nm;
            sh->setGroupName(groups[k].c_str());
            g_shells[k] = sh;
            registry.addTest(sh);
        }
        std::string out;
        if (!g_cli) {
            registry.runAllTests(result);
            alarm(0);
            reap_all();
            vh::emit("runcount %lu", (unsigned long) result.getRunCount());
            vh::emit("failures %lu", (unsigned long) result.getFailureCount());
            vh::emit("overall %s", result.isFailure() ? "fail" : "ok");
            out = output.getOutput().asCharString();
        }
        else {
            std::vector<const char*> av;
            av.push_back("runner");
            for (size_t k = 0; k < g_cli_args.size(); k++) av.push_back(g_cli_args[k].c_str());
            int code;
            g_rec_instances = 0;                 // the output the runner creates first is the recording one
            {
                CliRunner runner((int) av.size(), &av[0], &registry);
                code = runner.runAllTestsMain();
            }
            alarm(0);
            reap_all();
            out = read_console();
            vh::emit("runcount %ld", g_rec_started);
            vh::emit("failures %ld", g_rec_failures);
            vh::emit("overall %s", code != 0 ? "fail" : "ok");
            vh::emit("exitcode %d", code);
        }
        bool errs = out.find("Errors (") != std::string::npos;      // (with -c an escape sequence precedes it)
        bool ok = out.find("OK (") != std::string::npos;
        if (!errs && !ok) {                                          // JUnit only: <testsuite errors="0" failures="N" ...>
            size_t pos = 0; bool any = false;
            while ((pos = out.find("<testsuite errors=\"0\" failures=\"", pos)) != std::string::npos) {
                pos += strlen("<testsuite errors=\"0\" failures=\"");
                any = true;
                if (atoi(out.c_str() + pos) > 0) errs = true;
            }
            if (any && !errs) ok = true;
        }
        vh::emit("summary %s", errs && !ok ? "errors" : ok && !errs ? "ok" : "unclear");
        if (g_cli)
            for (size_t k = 0; k < n; k++)
                if (g_tests[k].real && g_tests[k].inject == 0 && !g_tests[k].forkFails && !g_tests[k].realForkFailed) {
                    char needle[64]; snprintf(needle, sizeof needle, "childfailure-of-test-%lu-", (unsigned long) k);
                    vh::emit("childtext %lu %lu", (unsigned long) k, (unsigned long) count_occurrences(out, needle));
                }
        if (g_deadline) vh::emit("deadline %d", (int) g_deadline);
        // markers written by the real children: which phases were entered, per test
        std::string marks; char buf[4096]; ssize_t r;
        if (fds[1] >= 0) { close(fds[1]); g_marker_fd = -1; }
        while (fds[0] >= 0 && (r = read(fds[0], buf, sizeof buf)) > 0) marks.append(buf, (size_t) r);
        if (fds[0] >= 0) close(fds[0]);
        std::vector<std::string> per(n);
        size_t pos = 0;
        while (pos < marks.size()) {
            size_t semi = marks.find(';', pos); if (semi == std::string::npos) break;
            std::string m = marks.substr(pos, semi - pos); pos = semi + 1;
            size_t colon = m.find(':'); if (colon == std::string::npos) continue;
            size_t t = (size_t) atoi(m.substr(0, colon).c_str());
            if (t < n) per[t] += " " + m.substr(colon + 1);
        }
        for (size_t k = 0; k < n; k++) if (g_tests[k].real) vh::emit("phases %lu%s", (unsigned long) k, per[k].c_str());
        registry.setCurrentRegistry(savedRegistry);
        for (size_t k = 0; k < execShells.size(); k++) execShells[k]->testFunction_ = 0;
        for (size_t k = 0; k < n; k++) delete g_shells[k];
        for (size_t k = 0; k < bodies.size(); k++) delete bodies[k];
    }
    stop_ticks();
    PlatformSpecificFork = savedFork;
    PlatformSpecificWaitPid = savedWait;
    PlatformSpecificFPuts = savedFPuts;
    PlatformSpecificFlush = savedFlush;
    PlatformSpecificFOpen = savedFOpen;
    PlatformSpecificFClose = savedFClose;
    if (g_console_fd >= 0) { close(g_console_fd); g_console_fd = -1; }
    signal(SIGALRM, SIG_DFL);
}

bool parse_t(const vh::Words& w, size_t& t) {
    if (w.size() < 2) return false;
    char* end = 0; unsigned long v = strtoul(w[1].c_str(), &end, 10);
    if (!end || *end || v >= g_tests.size()) return false;
    t = (size_t) v; return true;
}

void run_case(const vh::Case& c) {
    g_case_pid = getpid();
    g_tests.clear();
    g_cli = false;
    g_cli_args.clear();
    g_nproc0 = false;
    g_run_ignored = false;
    bool ran = false;
#ifdef VH_C11_NOFORK
    vh::emit_op("nofork");      // this binary links the fork-less variant of UtestPlatform.cpp
#endif
    for (size_t i = 0; i < c.ops.size(); i++) {
        const vh::Words& w = c.ops[i];
        size_t t = 0;
        if (w[0] == "tests" && w.size() == 2 && g_tests.empty() && !ran) {
            unsigned long n = strtoul(w[1].c_str(), 0, 10);
            if (n >= 1 && n <= 512) { g_tests.resize(n); vh::emit_op(c.raw[i]); continue; }
        }
        else if (ran) { }
        else if (w[0] == "fork" && w.size() == 3 && w[2] == "fail" && parse_t(w, t)) {
            g_tests[t].forkFails = true; vh::emit_op(c.raw[i]); continue;
        }
        else if (w[0] == "w" && w.size() >= 3 && parse_t(w, t) && !g_tests[t].real) {
            Outcome o; o.kind = -1; o.err = 0; o.status = 0;
            if (w[2] == "eintr" && w.size() == 3) o.kind = 0;
            else if (w[2] == "err" && w.size() == 4) { o.kind = 1; o.err = atoi(w[3].c_str()); if (o.err == EINTR) o.kind = -1; }
            else if (w[2] == "st" && w.size() == 4) { o.kind = 2; o.status = (unsigned int) strtoul(w[3].c_str(), 0, 16); }
            if (o.kind >= 0) { g_tests[t].outs.push_back(o); vh::emit_op(c.raw[i]); continue; }
        }
        else if (w[0] == "inj" && w.size() == 3 && parse_t(w, t)) {
            g_tests[t].inject = atoi(w[2].c_str()); vh::emit_op(c.raw[i]); continue;
        }
        else if (w[0] == "real" && w.size() >= 3 && (w.size() % 2) == 1 && parse_t(w, t) && g_tests[t].outs.empty()
                 && phase_of(w[2]) != PH_NONE) {
            TestSpec& s = g_tests[t];
            s.real = true; s.phase = phase_of(w[2]); s.actions.clear();
            for (size_t k = 3; k + 1 < w.size(); k += 2) { Action a; a.what = w[k]; a.arg = atol(w[k + 1].c_str()); s.actions.push_back(a); }
            vh::emit_op(c.raw[i]); continue;
        }
        else if (w[0] == "grp" && w.size() == 3 && parse_t(w, t)) {
            char* end = 0; unsigned long g = strtoul(w[2].c_str(), &end, 10);
            if (end && !*end && g < 1000) { g_tests[t].group = (int) g; vh::emit_op(c.raw[i]); continue; }
        }
        else if (w[0] == "ign" && w.size() == 2 && parse_t(w, t)) {
            g_tests[t].ignoredKind = true; vh::emit_op(c.raw[i]); continue;
        }
        else if (w[0] == "ri" && w.size() == 1 && !g_tests.empty() && !g_run_ignored) {
            g_run_ignored = true; vh::emit_op(c.raw[i]); continue;
        }
        else if (w[0] == "tick" && w.size() == 3 && parse_t(w, t)) {
            char* end = 0; unsigned long us = strtoul(w[2].c_str(), &end, 10);
            if (end && !*end && us >= 100 && us <= 1000000) { g_tests[t].tickUsec = (long) us; vh::emit_op(c.raw[i]); continue; }
        }
        else if (w[0] == "nproc0" && w.size() == 1 && !g_tests.empty() && !g_nproc0) {
            vh::emit_op("nproc0");
            g_nproc0 = true;
            fflush(stdout); fflush(stderr);
            int a = setgid(65534), b = setuid(65534); (void) a; (void) b;
            struct rlimit rl; rl.rlim_cur = 0; rl.rlim_max = 0;
            setrlimit(RLIMIT_NPROC, &rl);
            pid_t probe = fork();
            if (probe == 0) _exit(0);
            if (probe > 0) {
                int st; while (waitpid(probe, &st, 0) < 0 && errno == EINTR) { }
                vh::emit("forkfail unsupported");
                ran = true;                       // the environment cannot make fork fail: skip the rest
            }
            else vh::emit("forkfail supported");
            continue;
        }
        else if (w[0] == "cli" && w.size() <= 11 && !g_tests.empty() && !g_cli) {
            bool okArgs = true, hasP = w.size() == 1;
            for (size_t k = 1; k < w.size(); k++) {
                okArgs = okArgs && valid_cli_arg(w[k]); hasP = hasP || w[k] == "-p";
                // a count / seed as an argument of its own: only directly after a bare -r / -s
                if (w[k].size() == 1 && w[k][0] >= '1' && w[k][0] <= '3') okArgs = okArgs && k >= 2 && (w[k - 1] == "-r" || w[k - 1] == "-s");
            }
            if (okArgs && hasP) {
                g_cli = true;
                g_cli_args.assign(w.begin() + 1, w.end());
                if (g_cli_args.empty()) g_cli_args.push_back("-p");
                vh::emit_op(c.raw[i]); continue;
            }
        }
        else if (w[0] == "run" && w.size() == 1 && !g_tests.empty()) {
            vh::emit_op("run");
            ran = true;
            run_registry();
            continue;
        }
        vh::emit("> skip");
    }
}

} // namespace

int main() { return vh::run_all(run_case, 25); }
