// Common line-protocol library for the correspondence harnesses.
//
// Input (stdin):   case <id> / one operation per line / end
// Output (stdout): case <id> / "> <op>" followed by observation lines / [crash ...] / end
//
// Every case runs in a forked child (crash containment, deadline, fresh global state);
// a child that dies abnormally leaves a "crash ..." line which the checker treats as a
// failure of the implementation on that case.
#ifndef VERIF_HARNESS_COMMON_H
#define VERIF_HARNESS_COMMON_H

#include <string>
#include <vector>
#include <map>
#include <set>
#include <algorithm>
#include <sstream>
#include <memory>
#include <functional>
#include <thread>
#include <atomic>
#include <stdexcept>
#include <cstdio>
#include <cstdlib>
#include <cstring>
#include <cstdarg>
#include <unistd.h>
#include <signal.h>
#include <sys/wait.h>
#include <sys/types.h>

extern "C" const char* __asan_default_options() {
    return "exitcode=77:detect_leaks=0:abort_on_error=0:allocator_may_return_null=1:detect_stack_use_after_return=0";
}
extern "C" const char* __ubsan_default_options() {
    return "halt_on_error=1:exitcode=78:print_stacktrace=1";
}
extern "C" const char* __tsan_default_options() {
    return "exitcode=79:halt_on_error=1";
}

namespace vh {

typedef std::vector<std::string> Words;

struct Case {
    std::string id;
    std::vector<Words> ops;
    std::vector<std::string> raw;
};

inline Words split(const std::string& line) {
    Words w; std::string cur;
    for (size_t i = 0; i < line.size(); i++) {
        char c = line[i];
        if (c == ' ' || c == '\n' || c == '\r' || c == '\t') { if (!cur.empty()) { w.push_back(cur); cur.clear(); } }
        else cur.push_back(c);
    }
    if (!cur.empty()) w.push_back(cur);
    return w;
}

inline std::string hex(const void* p, size_t n) {
    static const char* d = "0123456789abcdef";
    if (n == 0) return "-";
    std::string s; const unsigned char* b = (const unsigned char*) p;
    for (size_t i = 0; i < n; i++) { s.push_back(d[b[i] >> 4]); s.push_back(d[b[i] & 15]); }
    return s;
}
inline std::string hex(const std::string& s) { return hex(s.data(), s.size()); }

inline int hexval(char c) {
    if (c >= '0' && c <= '9') return c - '0';
    if (c >= 'a' && c <= 'f') return c - 'a' + 10;
    if (c >= 'A' && c <= 'F') return c - 'A' + 10;
    return -1;
}
// "-" is the empty string
inline std::string unhex(const std::string& h) {
    std::string out;
    if (h == "-") return out;
    for (size_t i = 0; i + 1 < h.size(); i += 2) out.push_back((char) (hexval(h[i]) * 16 + hexval(h[i + 1])));
    return out;
}

inline void emit(const char* fmt, ...) {
    va_list ap; va_start(ap, fmt); vfprintf(stdout, fmt, ap); va_end(ap); fputc('\n', stdout);
}
inline void emit_op(const std::string& raw) { fprintf(stdout, "> %s\n", raw.c_str()); }

inline unsigned long long to_u64(const std::string& s) { return strtoull(s.c_str(), 0, 10); }
inline long long to_i64(const std::string& s) { return strtoll(s.c_str(), 0, 10); }

typedef void (*CaseFn)(const Case&);

#ifdef VERIF_COVERAGE
extern "C" void __gcov_dump(void);
#endif
inline std::vector<Case> read_cases(FILE* in) {
    std::vector<Case> cases; Case cur; bool open = false;
    char* line = 0; size_t cap = 0; ssize_t n;
    while ((n = getline(&line, &cap, in)) >= 0) {
        std::string l(line, (size_t) n);
        while (!l.empty() && (l[l.size() - 1] == '\n' || l[l.size() - 1] == '\r')) l.erase(l.size() - 1);
        Words w = split(l);
        if (w.empty()) continue;
        if (w[0] == "case" && w.size() >= 2) { cur = Case(); cur.id = w[1]; open = true; continue; }
        if (w[0] == "end" && w.size() == 1) { if (open) cases.push_back(cur); open = false; continue; }
        if (open) { cur.ops.push_back(w); cur.raw.push_back(l); }
    }
    free(line);
    return cases;
}

// Runs every case in a child. `timeout_s` is the per-case deadline (a hang is a result).
inline int run_all(CaseFn fn, unsigned timeout_s = 60) {
    const char* t = getenv("VH_TIMEOUT"); if (t) timeout_s = (unsigned) atoi(t);
    std::vector<Case> cases = read_cases(stdin);
    bool nofork = getenv("VH_NOFORK") != 0;
    for (size_t i = 0; i < cases.size(); i++) {
        printf("case %s\n", cases[i].id.c_str());
        fflush(stdout); fflush(stderr);
        if (nofork) { fn(cases[i]); printf("end\n"); fflush(stdout); continue; }
        pid_t pid = fork();
        if (pid == 0) {
            alarm(timeout_s);
            setvbuf(stdout, 0, _IOLBF, 0);
            fprintf(stderr, "=== case %s\n", cases[i].id.c_str());
            fn(cases[i]);
            fflush(stdout); fflush(stderr);
#ifdef VERIF_COVERAGE
            __gcov_dump();      // tools/harness_coverage.py: _exit would drop the counters of this case
#endif
            _exit(0);
        }
        int st = 0;
        while (waitpid(pid, &st, WUNTRACED) < 0) { }
        if (WIFSTOPPED(st)) {
            // a stopped case child would never be reaped (its alarm cannot fire while stopped)
            kill(pid, SIGKILL);
            while (waitpid(pid, &st, 0) < 0) { }
            printf("crash stopped\n");
        }
        else if (WIFSIGNALED(st)) {
            if (WTERMSIG(st) == SIGALRM) printf("crash timeout\n");
            else printf("crash signal %d\n", WTERMSIG(st));
        }
        else if (WIFEXITED(st) && WEXITSTATUS(st) != 0) {
            int e = WEXITSTATUS(st);
            printf("crash %s\n", e == 77 ? "asan" : e == 78 ? "ubsan" : e == 79 ? "tsan" : "exit");
        }
        printf("end\n");
        fflush(stdout);
    }
    return 0;
}

} // namespace vh
#endif
