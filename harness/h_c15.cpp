// C15 correspondence harness.
//
//  mode fa : drives a real FailableMemoryAllocator.  Allocations go either directly to
//            alloc_memory(size, file, line) (family d) or through the tracked malloc / operator new /
//            operator new[] with the allocator installed for the duration of that one call
//            (families m, n, a; plain and nothrow new p, q, t, u; the malloc / new macros M, W); a successful
//            allocation is released at once.  Designation nodes are
//            numbered by recording allocMemoryLeakNode / free_memory, so the trace shows WHICH
//            designations an allocation consumed.  checkAllFailedAllocsWereDone runs as the body of
//            a real test (TestTestingFixture) so that its failure text can be read.
//  mode fc : both at once: the FailableMemoryAllocator stays installed as the current MALLOC allocator for the whole case
//            and the C-level API (cpputest_malloc / strdup / strndup / calloc at "<unknown>":0, the countdown, set / unset
//            out-of-memory) runs on top of it; every successful block is released at once.
//  op `ts on|off` (modes fa, fc): MemoryLeakWarningPlugin::turnOnThreadSafeNewDeleteOverloads() / turnOnDefaultNotThreadSafe...():
//            the allocations that follow go through the threadsafe_mem_leak_* functions (same families, same observations).
//  mode c  : the C-level countdown through cpputest_malloc / strdup / strndup / calloc, plus realloc / free
//            (outside the countdown) and malloc_count after every call.
//
// Files come from a small pool; two pool entries have equal content at different addresses
// (locations are compared by content).  The canonical op line carries the file CONTENT.
#include "fixture.h"
#include "CppUTest/TestMemoryAllocator.h"
#include "CppUTest/MemoryLeakWarningPlugin.h"
#include "CppUTest/MemoryLeakDetectorNewMacros.h"
#include "CppUTest/TestHarness_c.h"
#include "CppUTest/MemoryLeakDetectorMallocMacros.h"
#include <new>

// Allocations written the way test code writes them, with the memory-leak MACROS still active
// (`malloc(n)` = cpputest_malloc_location(n, __FILE__, __LINE__), `new` = new(__FILE__, __LINE__)).
// The location the allocator sees is this source file and the line of the statement.
namespace viamacro {
enum { LINE_MALLOC = __LINE__ + 1 };
inline void* m_alloc(size_t n) { return malloc(n); }
inline void m_free(void* p) { free(p); }
enum { LINE_NEW = __LINE__ + 1 };
inline char* n_alloc(size_t n) { return new char[n]; }
inline const char* this_file() { return __FILE__; }
}

#undef new
#undef malloc
#undef free
#undef calloc
#undef realloc
#undef strdup
#undef strndup

namespace {

char F0[] = "a.c";
char F1[] = "b.c";
char F2[] = "a.c";          // same content as F0, different address
char F3[] = "dir/a.c";       // differs from a.c only by a directory prefix: a different location
char F4[] = "other/a.c";
char F5[] = "<unknown>";     // own copy of the name the plain overloads report (with line 0)
char F6[512];                // own copy of this source file's __FILE__ (locations of the macro allocations)
enum { NFILES = 7 };
char* const FILES[NFILES] = { F0, F1, F2, F3, F4, F5, F6 };
// canonical name printed in the trace (the harness path differs between checkouts)
const char* fname(unsigned fi) { return fi == 6 ? "<harness>" : FILES[fi]; }
// the line that goes with a pool file: "<unknown>" is always reported with line 0; for this source file
// the generator's line 0 / 1 stand for the malloc-macro / new-macro statement
size_t fline(unsigned fi, size_t line) {
    if (fi == 5) return 0;
    if (fi == 6) return (line % 2 == 0) ? (size_t) viamacro::LINE_MALLOC : (size_t) viamacro::LINE_NEW;
    return line;
}

// No std container inside the recording callbacks: they run while the allocator under test is
// installed as the current new/malloc allocator, and a container would allocate through it.
struct RecFailable : public FailableMemoryAllocator {
    enum { MAXN = 4096 };
    char* ptrs[MAXN];
    unsigned long next;
    bool designating;
    unsigned long freed[MAXN];
    size_t nfreed;
    RecFailable() : FailableMemoryAllocator("failable", "alloc", "free"), next(0), designating(false), nfreed(0) {
        for (size_t i = 0; i < MAXN; i++) ptrs[i] = 0;
    }
    char* allocMemoryLeakNode(size_t size) CPPUTEST_OVERRIDE {
        char* p = FailableMemoryAllocator::allocMemoryLeakNode(size);
        if (designating && next < MAXN) ptrs[next++] = p;
        return p;
    }
    void free_memory(char* memory, size_t size, const char* file, size_t line) CPPUTEST_OVERRIDE {
        for (unsigned long i = 0; i < next; i++)
            if (ptrs[i] == memory && memory) { if (nfreed < MAXN) freed[nfreed++] = i; ptrs[i] = 0; break; }
        FailableMemoryAllocator::free_memory(memory, size, file, line);
    }
};

RecFailable* g_fa = 0;
char* volatile g_sink = 0;

// realloc / free of the C level run as the body of a real test: under simulated out-of-memory the leak
// detector refuses them with a test failure
void* g_re_old = 0; size_t g_re_size = 0; void* volatile g_re_new = 0;
void realloc_body() { g_re_new = cpputest_realloc(g_re_old, g_re_size); }
void free_body() { cpputest_free(g_re_old); }

void check_body() { g_fa->checkAllFailedAllocsWereDone(); }

std::string ids_line(const char* tag, const unsigned long* v, size_t n) {
    std::string s = tag;
    if (n == 0) return s + " -";
    char buf[32];
    for (size_t i = 0; i < n; i++) { snprintf(buf, sizeof buf, " %lu", v[i]); s += buf; }
    return s;
}

void run_case(const vh::Case& c) {
    strncpy(F6, viamacro::this_file(), sizeof F6 - 1);
    RecFailable* fa = new RecFailable();      // never destroyed: the process ends with the case
    g_fa = fa;
    std::string mode;
    bool persist = false;       // mode fc
    std::vector<void*> cblocks;
    for (size_t i = 0; i < c.ops.size(); i++) {
        const vh::Words& w = c.ops[i];
        const bool isfa = mode == "fa" || mode == "fc", isc = mode == "c" || mode == "fc";
        if (w[0] == "mode" && w.size() == 2 && mode.empty() && (w[1] == "fa" || w[1] == "c" || w[1] == "fc")) {
            mode = w[1];
            vh::emit("> mode %s", mode.c_str());
            if (mode == "fc") { persist = true; setCurrentMallocAllocator(fa); }
        }
        else if (isfa && w[0] == "ts" && w.size() == 2 && (w[1] == "on" || w[1] == "off")) {
            vh::emit("> ts %s", w[1].c_str());
            if (w[1] == "on") MemoryLeakWarningPlugin::turnOnThreadSafeNewDeleteOverloads();
            else MemoryLeakWarningPlugin::turnOnDefaultNotThreadSafeNewDeleteOverloads();
        }
        // ------------------------------------------------------------------ failable allocator
        else if (isfa && w[0] == "failnum" && w.size() == 2) {
            int n = (int) vh::to_i64(w[1]);
            vh::emit("> failnum %d", n);
            unsigned long id = fa->next;
            fa->designating = true; fa->failAllocNumber(n); fa->designating = false;
            if (fa->next == id + 1) vh::emit("node %lu", id); else vh::emit("node ?");
        }
        else if (isfa && w[0] == "failat" && w.size() == 4) {
            int n = (int) vh::to_i64(w[1]);
            unsigned fi = (unsigned) vh::to_u64(w[2]) % NFILES;
            size_t line = fline(fi, (size_t) vh::to_u64(w[3]));
            vh::emit("> failat %d %s %lu", n, fname(fi), (unsigned long) line);
            unsigned long id = fa->next;
            fa->designating = true; fa->failNthAllocAt(n, FILES[fi], line); fa->designating = false;
            if (fa->next == id + 1) vh::emit("node %lu", id); else vh::emit("node ?");
        }
        else if (isfa && w[0] == "alloc" && w.size() == 5) {
            size_t size = (size_t) vh::to_u64(w[1]);
            unsigned fi = (unsigned) vh::to_u64(w[2]) % NFILES;
            char fam = w[4][0];
            // d: alloc_memory directly; m/n/a: tracked malloc / operator new / operator new[] with an explicit
            // location; p/q: plain `new char` / `new char[n]`; t/u: the nothrow forms; M/W: the malloc / new[]
            // MACROS.  p,q,t,u report "<unknown>":0, M and W this source file and the statement's line.
            if (!strchr("dmnapqtuMW", fam)) fam = 'd';
            if (strchr("pqtu", fam)) fi = 5;
            if (fam == 'M' || fam == 'W') fi = 6;
            size_t line = fline(fi, (size_t) vh::to_u64(w[3]));
            if (fam == 'M') line = viamacro::LINE_MALLOC;
            if (fam == 'W') line = viamacro::LINE_NEW;
            if (size == 0) size = 1;
            if (size > 4096) size = 4096;
            vh::emit("> alloc %s %lu %c", fname(fi), (unsigned long) line, fam);
            fa->nfreed = 0;
            const char* res = "ok";
            TestMemoryAllocator* savedM = getCurrentMallocAllocator();
            TestMemoryAllocator* savedN = getCurrentNewAllocator();
            TestMemoryAllocator* savedA = getCurrentNewArrayAllocator();
            if (fam == 'd') {
                char* p = fa->alloc_memory(size, FILES[fi], line);
                if (p) { memset(p, 'x', size); fa->free_memory(p, size, FILES[fi], line); }
                else res = "null";
            }
            else {
                // the allocator under test is the CURRENT allocator of all three families for the duration of
                // this one allocation (nothing else may allocate in between: no std:: calls here)
                // (in mode fc the malloc allocator is left alone: it is the failable allocator or, under simulated
                // out-of-memory, the null allocator)
                if (!persist) setCurrentMallocAllocator(fa);
                setCurrentNewAllocator(fa); setCurrentNewArrayAllocator(fa);
                try {
                    if (fam == 'm') {
                        void* p = cpputest_malloc_location(size, FILES[fi], line);
                        if (p) { memset(p, 'x', size); cpputest_free_location(p, FILES[fi], line); } else res = "null";
                    }
                    else if (fam == 'M') {
                        void* p = viamacro::m_alloc(size);
                        if (p) { memset(p, 'x', size); viamacro::m_free(p); } else res = "null";
                    }
                    else if (fam == 'n') { g_sink = (char*) operator new(size, FILES[fi], line); if (g_sink) { memset(g_sink, 'x', size); operator delete(g_sink); } else res = "null"; }
                    else if (fam == 'a') { g_sink = (char*) operator new[](size, FILES[fi], line); if (g_sink) { memset(g_sink, 'x', size); operator delete[](g_sink); } else res = "null"; }
                    // g_sink (volatile) keeps the compiler from eliding the new/delete pairs and from assuming that a throwing
                    // form never hands back NULL: such a result is observed as `ret null`
                    else if (fam == 'p') { g_sink = new char; if (g_sink) { *g_sink = 'x'; delete g_sink; } else res = "null"; }
                    else if (fam == 'q') { g_sink = new char[size]; if (g_sink) { memset(g_sink, 'x', size); delete[] g_sink; } else res = "null"; }
                    else if (fam == 't') { g_sink = new (std::nothrow) char; if (g_sink) { *g_sink = 'x'; delete g_sink; } else res = "null"; }
                    else if (fam == 'u') { g_sink = new (std::nothrow) char[size]; if (g_sink) { memset(g_sink, 'x', size); delete[] g_sink; } else res = "null"; }
                    else if (fam == 'W') { g_sink = viamacro::n_alloc(size); if (g_sink) { memset(g_sink, 'x', size); delete[] g_sink; } else res = "null"; }
                } catch (std::bad_alloc&) { res = "throw"; }
                if (!persist) setCurrentMallocAllocator(savedM);
                setCurrentNewAllocator(savedN); setCurrentNewArrayAllocator(savedA);
            }
            vh::emit("ret %s", res);
            if (fa->nfreed) vh::emit("%s", ids_line("fired", fa->freed, fa->nfreed).c_str());
        }
        else if (isfa && w[0] == "check" && w.size() == 1) {
            vh::emit_op("check");
            std::string out; size_t failures;
            {
                TestTestingFixture fixture;
                fixture.setTestFunction(check_body);
                fixture.runAllTests();
                failures = fixture.getFailureCount();
                out = fixture.getOutput().asCharString();
            }
            if (failures == 0) vh::emit("check ok");
            else {
                const char* A = "Expected failing alloc at ";
                const char* N = "Expected allocation number ";
                const char* E = " was never done";
                size_t a = out.find(A), n = out.find(N), e = out.find(E);
                if (failures == 1 && a != std::string::npos && e != std::string::npos && e > a) {
                    std::string mid = out.substr(a + strlen(A), e - a - strlen(A));
                    size_t colon = mid.rfind(':');
                    if (colon != std::string::npos) {
                        std::string f = mid.substr(0, colon);
                        if (f == F6) f = "<harness>";
                        vh::emit("check fail at %s %s", f.c_str(), mid.substr(colon + 1).c_str());
                    }
                    else vh::emit("check fail text %s", vh::hex(out).c_str());
                }
                else if (failures == 1 && n != std::string::npos && e != std::string::npos && e > n)
                    vh::emit("check fail number %s", out.substr(n + strlen(N), e - n - strlen(N)).c_str());
                else vh::emit("check fail text %lu %s", (unsigned long) failures, vh::hex(out).c_str());
                // the exact message (from "Expected" to "never done"), with this source file's path made canonical
                size_t x = out.find("Expected "), y = out.find(E);
                if (failures == 1 && x != std::string::npos && y != std::string::npos && y > x) {
                    std::string msg = out.substr(x, y + strlen(E) - x);
                    size_t z = msg.find(F6);
                    if (F6[0] && z != std::string::npos) msg.replace(z, strlen(F6), "<harness>");
                    vh::emit("text %s", vh::hex(msg).c_str());
                }
            }
        }
        else if (isfa && w[0] == "clear" && w.size() == 1) {
            vh::emit_op("clear");
            fa->nfreed = 0;
            fa->clearFailedAllocs();
            vh::emit("%s", ids_line("freed", fa->freed, fa->nfreed).c_str());
        }
        // ------------------------------------------------------------------ C level
        else if (isc && w[0] == "cd" && w.size() == 2) {
            int n = (int) vh::to_i64(w[1]);
            vh::emit("> cd %d", n);
            cpputest_malloc_set_out_of_memory_countdown(n);
        }
        else if (isc && w[0] == "oom" && w.size() == 1) { vh::emit_op("oom"); cpputest_malloc_set_out_of_memory(); }
        else if (isc && w[0] == "notoom" && w.size() == 1) { vh::emit_op("notoom"); cpputest_malloc_set_not_out_of_memory(); }
        else if (isc && w[0] == "creset" && w.size() == 1) {
            vh::emit_op("creset"); cpputest_malloc_count_reset(); vh::emit("count %d", cpputest_malloc_get_count());
        }
        else if (isc && w[0] == "cmalloc" && w.size() == 2) {
            size_t size = (size_t) vh::to_u64(w[1]);
            if (size == 0) size = 1;
            if (size > 4096) size = 4096;
            vh::emit("> cmalloc %lu", (unsigned long) size);
            fa->nfreed = 0;
            void* p = cpputest_malloc(size);
            if (p) { memset(p, 'x', size); vh::emit("ret ok"); if (persist) cpputest_free(p); else cblocks.push_back(p); } else vh::emit("ret null");
            if (fa->nfreed) vh::emit("%s", ids_line("fired", fa->freed, fa->nfreed).c_str());
            vh::emit("count %d", cpputest_malloc_get_count());
        }
        else if (isc && w[0] == "cstrdup" && w.size() == 2) {
            std::string s = vh::unhex(w[1]);
            if (s.find('\0') != std::string::npos) { vh::emit("> skip"); continue; }
            vh::emit("> cstrdup %s", vh::hex(s).c_str());
            fa->nfreed = 0;
            char* p = cpputest_strdup(s.c_str());
            if (p) { vh::emit("ret %s", vh::hex(p, strlen(p) + 1).c_str()); if (persist) cpputest_free(p); else cblocks.push_back(p); } else vh::emit("ret null");
            if (fa->nfreed) vh::emit("%s", ids_line("fired", fa->freed, fa->nfreed).c_str());
            vh::emit("count %d", cpputest_malloc_get_count());
        }
        else if (isc && w[0] == "cstrndup" && w.size() == 3) {
            std::string s = vh::unhex(w[1]);
            size_t n = (size_t) vh::to_u64(w[2]);
            if (s.find('\0') != std::string::npos) { vh::emit("> skip"); continue; }
            vh::emit("> cstrndup %s %lu", vh::hex(s).c_str(), (unsigned long) n);
            fa->nfreed = 0;
            char* p = cpputest_strndup(s.c_str(), n);
            if (p) { vh::emit("ret %s", vh::hex(p, strlen(p) + 1).c_str()); if (persist) cpputest_free(p); else cblocks.push_back(p); } else vh::emit("ret null");
            if (fa->nfreed) vh::emit("%s", ids_line("fired", fa->freed, fa->nfreed).c_str());
            vh::emit("count %d", cpputest_malloc_get_count());
        }
        else if (isc && w[0] == "ccalloc" && w.size() == 3) {
            unsigned long long a = vh::to_u64(w[1]), b = vh::to_u64(w[2]);
            // only small products or overflowing ones (a huge valid request is not the subject here)
            unsigned __int128 prod = (unsigned __int128) a * b;
            if (prod <= (unsigned __int128) 0xffffffffffffffffULL && prod > 65536) { vh::emit("> skip"); continue; }
            vh::emit("> ccalloc %llu %llu", a, b);
            fa->nfreed = 0;
            void* p = cpputest_calloc((size_t) a, (size_t) b);
            if (!p) vh::emit("ret null");
            else {
                size_t n = (size_t) (a * b); bool zero = true;
                for (size_t k = 0; k < n; k++) if (((unsigned char*) p)[k] != 0) zero = false;
                if (zero) vh::emit("ret zeros %lu", (unsigned long) n); else vh::emit("ret dirty");
                if (persist) cpputest_free(p); else cblocks.push_back(p);
            }
            if (fa->nfreed) vh::emit("%s", ids_line("fired", fa->freed, fa->nfreed).c_str());
            vh::emit("count %d", cpputest_malloc_get_count());
        }
        else if (mode == "c" && (w[0] == "crealloc" || w[0] == "cfree") && w.size() == 3) {   // crealloc|cfree <block index> <size>
            bool is_re = w[0] == "crealloc";
            bool oom = getCurrentMallocAllocator() == NullUnknownAllocator::defaultAllocator();
            size_t k = cblocks.empty() ? 0 : (size_t) vh::to_u64(w[1]) % cblocks.size();
            void* old = cblocks.empty() ? 0 : cblocks[k];
            size_t size = (size_t) vh::to_u64(w[2]); if (size == 0) size = 1; if (size > 4096) size = 4096;
            // realloc(NULL, n) with the null allocator current crashes inside the leak detector (see report): not driven
            if ((!old && oom) || (!old && !is_re)) { vh::emit("> skip"); continue; }
            if (is_re) vh::emit("> crealloc %s %lu", old ? "old" : "null", (unsigned long) size); else vh::emit("> cfree old");
            g_re_old = old; g_re_size = size; g_re_new = 0;
            std::string out; size_t failures;
            {
                TestTestingFixture fixture;
                fixture.setTestFunction(is_re ? realloc_body : free_body);
                fixture.runAllTests();
                failures = fixture.getFailureCount();
                out = fixture.getOutput().asCharString();
            }
            if (failures) {
                vh::emit("failure %s", out.find("Allocation/deallocation type mismatch") != std::string::npos ? "mismatch" : "other");
                if (old) cblocks.erase(cblocks.begin() + (long) k);      // the detector dropped its record: the block is leaked
            }
            else if (is_re) {
                if (g_re_new) { memset((void*) g_re_new, 'x', size); if (old) cblocks[k] = (void*) g_re_new; else cblocks.push_back((void*) g_re_new); vh::emit("ret ok"); }
                else vh::emit("ret null");
            }
            else { cblocks.erase(cblocks.begin() + (long) k); vh::emit("ret ok"); }
            vh::emit("count %d", cpputest_malloc_get_count());
        }
        else vh::emit("> skip");
    }
    // end-of-case cleanup, not part of the history
    MemoryLeakWarningPlugin::turnOnDefaultNotThreadSafeNewDeleteOverloads();
    if (mode == "c" || mode == "fc") {
        cpputest_malloc_set_not_out_of_memory();
        for (size_t k = 0; k < cblocks.size(); k++) cpputest_free(cblocks[k]);
    }
}

} // namespace

int main() { return vh::run_all(run_case); }
