// C20 correspondence harness: a scripted registry (h_c16_util.h) is run by the real TestRegistry with
// the real TeamCityTestOutput; everything the output writes reaches PlatformSpecificFPuts, which is
// captured here.  Observation at `run`:  out <hex of the whole stream>
#include "h_c16_util.h"
#include "CppUTest/TeamCityTestOutput.h"

namespace {

std::string g_stream;

void capture_fputs(const char* s, PlatformSpecificFile f) {
    if (f == PlatformSpecificStdOut) g_stream += s;
}
void no_flush() {}

void run_case(const vh::Case& c) {
    vo::Registry reg;
    PlatformSpecificFPuts = capture_fputs;
    PlatformSpecificFlush = no_flush;
    for (size_t i = 0; i < c.ops.size(); i++) {
        const vh::Words& w = c.ops[i];
        if (w[0] == "run" && w.size() == 1) {
            vh::emit_op("run");
            g_stream.clear();
            {
                TeamCityTestOutput out;
                vo::run_registry(reg, out);
            }
            vh::emit("out %s", vh::hex(g_stream).c_str());
        }
        else if (vo::apply_op(reg, w)) vh::emit_op(vo::join(w));
        else vh::emit("> skip");
    }
}

} // namespace

int main() { return vh::run_all(run_case); }
