// C20 correspondence harness: a scripted registry (h_c16_util.h) is run by the real TestRegistry with
// the real TeamCityTestOutput; everything the output writes reaches PlatformSpecificFPuts, which is
// captured here.  Observation at `run`:  out <hex of the whole stream>
//
// Real-I/O sub-mode (`realio` before `run`): the registry is run through the real CommandLineTestRunner with
// `-oteamcity` (plus -v/-vv, the name filter flag and, after `separate`, `-p`) in a grand-child process whose
// stdout is a pipe and fully buffered, with PlatformSpecificFPuts / PlatformSpecificFlush at the platform's real
// implementations (fputs / fflush on stdout); the bytes that arrive at the other end of the pipe are reported:
//   out <hex>      (compared with the writer model byte for byte, judged by the oracle)
//   outp <hex>     for a `-p` run (every test in its own process: judged by the oracle only)
//   crash realio-child <what>   when the grand-child dies
#include "h_c16_util.h"
#include "CppUTest/TeamCityTestOutput.h"
#include "CppUTest/CommandLineTestRunner.h"

namespace {

std::string g_stream;

void capture_fputs(const char* s, PlatformSpecificFile f) {
    if (f == PlatformSpecificStdOut) g_stream += s;
}
void no_flush() {}

void (*g_real_fputs)(const char*, PlatformSpecificFile) = 0;
void (*g_real_flush)() = 0;

void run_real_io(const vo::Registry& reg) {
    fflush(stdout); fflush(stderr);
    int fd[2];
    if (pipe(fd) != 0) { vh::emit("crash realio-child no-pipe"); return; }
    pid_t pid = fork();
    if (pid == 0) {
        alarm(30);
        close(fd[0]);
        dup2(fd[1], 1);
        close(fd[1]);
        setvbuf(stdout, 0, _IOFBF, 0);          // what stdout is when it goes to a pipe or a file
        PlatformSpecificFPuts = g_real_fputs;
        PlatformSpecificFlush = g_real_flush;
        vo::stub_clock();
        int rc;
        {
            vo::Built b(reg);
            b.reg.setCurrentRegistry(&b.reg);
            std::vector<std::string> args;
            args.push_back("h_c20");
            args.push_back("-oteamcity");
            if (reg.verbosity == 1) args.push_back("-v");
            if (reg.verbosity == 2) args.push_back("-vv");
            if (reg.separate) args.push_back("-p");
            if (reg.repeat > 1) args.push_back(std::string("-r") + (char) ('0' + reg.repeat));
            if (reg.has_filter) {
                args.push_back(reg.strict ? (reg.invert ? "-xsn" : "-sn") : (reg.invert ? "-xn" : "-n"));
                args.push_back(reg.filter);
            }
            std::vector<const char*> argv;
            for (size_t i = 0; i < args.size(); i++) argv.push_back(args[i].c_str());
            rc = CommandLineTestRunner::RunAllTests((int) argv.size(), &argv[0]);
            b.reg.setCurrentRegistry(0);
        }
        (void) rc;
        fflush(stdout);
        _exit(0);
    }
    close(fd[1]);
    std::string data;
    char buf[65536]; ssize_t n;
    while ((n = read(fd[0], buf, sizeof buf)) > 0 || (n < 0 && errno == EINTR)) if (n > 0) data.append(buf, (size_t) n);
    close(fd[0]);
    int st = 0;
    while (waitpid(pid, &st, 0) < 0 && errno == EINTR) { }
    vh::emit("%s %s", reg.separate ? "outp" : "out", vh::hex(data).c_str());
    if (WIFSIGNALED(st)) vh::emit("crash realio-child signal %d", WTERMSIG(st));
    else if (WIFEXITED(st) && WEXITSTATUS(st) != 0) vh::emit("crash realio-child exit %d", WEXITSTATUS(st));
}

void run_case(const vh::Case& c) {
    vo::Registry reg;
    if (!g_real_fputs) { g_real_fputs = PlatformSpecificFPuts; g_real_flush = PlatformSpecificFlush; }
    PlatformSpecificFPuts = capture_fputs;
    PlatformSpecificFlush = no_flush;
    for (size_t i = 0; i < c.ops.size(); i++) {
        const vh::Words& w = c.ops[i];
        if (w[0] == "run" && w.size() == 1) {
            vh::emit_op("run");
            if (reg.realio) { run_real_io(reg); continue; }
            g_stream.clear();
            {
                TeamCityTestOutput out;
                vo::run_registry(reg, out);
            }
            vh::emit("out %s", vh::hex(g_stream).c_str());
        }
        else if (vo::apply_op(reg, w)) vh::emit_op(vo::join(w));
        else vh::emit("> skip");
    }
}

} // namespace

int main() { return vh::run_all(run_case); }
