// C20 correspondence harness: a scripted registry (h_c16_util.h) is run by the real TestRegistry with
// the real TeamCityTestOutput; everything the output writes reaches PlatformSpecificFPuts, which is
// captured here.  Observation at `run`:  out <hex of the whole stream>
//
// Real-I/O sub-mode (`realio` before `run`): the registry is run through the real CommandLineTestRunner with
// `-oteamcity` (plus -v/-vv, the name filter flag and, after `separate`, `-p`) in a grand-child process whose
// stdout is a pipe and fully buffered, with PlatformSpecificFPuts / PlatformSpecificFlush at the platform's real
// implementations (fputs / fflush on stdout); the bytes that arrive at the other end of the pipe are reported:
//   out <hex>      (compared with the writer model byte for byte, judged by the oracle)
//   outp <hex>     for a `-p` run (every test in its own process: judged by the oracle only)
//   crash realio-child <what>   when the grand-child dies
//
// Two more definition lines for the `-p` runs of the real-I/O sub-mode (they belong to the latest `test`):
//   childstop      the forked process of this test stops itself (SIGSTOP) at the start of the test body; once the runner has
//                  continued it, it waits 100 ms and goes on with the body.  Only in a forked test process of a `-p` run;
//                  everywhere else the line has no effect.
//   slow <ms>      the test body really sleeps <ms> milliseconds first (real-I/O sub-mode only; <ms> <= 2000)
//
// Mock sub-scenario (every run): the REAL MockSupportPlugin is installed in the private registry (after the scripted plugin, so
// its post-test action runs last).  Definition line (belongs to the latest `test`, the latest line wins):
//   mockleft <hex function name>   the test body starts with mock().expectOneCall(name) and never calls the function nor
//                  checks the expectations itself: the unfulfilled expectation is found by the plugin's post-test action
//                  (only when the test has not failed otherwise), i.e. AFTER runOneTestInCurrentProcess has put the saved
//                  current test back, and is reported through MockSupportPluginReporter -> result.addFailure.
//
// Composite sub-mode (`composite <1|2>` before `run`, not with realio): the registry is run with a CompositeTestOutput whose
// outputOne_ (1) / outputTwo_ (2) is the TeamCityTestOutput writing to stdout and whose other output is a ConsoleTestOutput
// that writes into a private sink (not stdout).  What reaches stdout is reported as `out <hex>` and must be the stream of a
// TeamCityTestOutput used directly: CompositeTestOutput forwards every callback; printTestRun, which it does not override,
// reaches both outputs through print().  `sink <n>` = 1 when the other output received anything at all.
#include <signal.h>
#include <unistd.h>
#include "h_c16_util.h"
#include "CppUTest/TeamCityTestOutput.h"
#include "CppUTest/CommandLineTestRunner.h"
#include "CppUTestExt/MockSupport.h"
#include "CppUTestExt/MockSupportPlugin.h"

namespace {

std::string g_stream;

void capture_fputs(const char* s, PlatformSpecificFile f) {
    if (f == PlatformSpecificStdOut) g_stream += s;
}
void no_flush() {}

void (*g_real_fputs)(const char*, PlatformSpecificFile) = 0;
void (*g_real_flush)() = 0;

// the second output of the composite: a console output whose bytes do not go to stdout
class SinkOutput : public ConsoleTestOutput {
public:
    explicit SinkOutput(std::string* d) : data_(d) {}
    void printBuffer(const char* s) CPPUTEST_OVERRIDE { *data_ += s; }
    void flush() CPPUTEST_OVERRIDE {}
private:
    std::string* data_;
};

// ---- scripted tests whose process stops itself / that are really slow (`childstop`, `slow`)
std::map<size_t, bool> g_stop;          // script index -> stops itself
std::map<size_t, unsigned> g_slow;      // script index -> milliseconds
std::map<size_t, std::string> g_mock;   // script index -> name of the function the test expects and never calls (`mockleft`)
pid_t g_runner_pid = 0;                 // the process running the registry in a `-p` run (0 = not such a run)

class StopUtest : public Utest {
public:
    StopUtest(const vo::Script* s, bool stop, unsigned slow_ms, const std::string* mk) : s_(s), stop_(stop), slow_ms_(slow_ms), mock_(mk) {}
    void testBody() CPPUTEST_OVERRIDE {
        if (mock_) mock().expectOneCall(mock_->c_str());      // left unfulfilled and unchecked by the test itself
        if (stop_ && g_runner_pid != 0 && getpid() != g_runner_pid) {
            kill(getpid(), SIGSTOP);            // reported to the runner by waitpid(.., WUNTRACED); the runner sends SIGCONT
            usleep(100 * 1000);
        }
        if (slow_ms_) usleep(slow_ms_ * 1000);
        vo::run_actions(s_->acts);
    }
private:
    const vo::Script* s_; bool stop_; unsigned slow_ms_; const std::string* mock_;
};

class StopShell : public UtestShell {
public:
    StopShell(const vo::Script* s, bool stop, unsigned slow_ms, const std::string* mk)
        : UtestShell(s->group.c_str(), s->name.c_str(), s->file.c_str(), s->line), s_(s), stop_(stop), slow_ms_(slow_ms), mock_(mk) {}
    Utest* createTest() CPPUTEST_OVERRIDE { return new StopUtest(s_, stop_, slow_ms_, mock_); }
private:
    const vo::Script* s_; bool stop_; unsigned slow_ms_; const std::string* mock_;
};

// vo::Built with StopShell for the marked scripts and the real MockSupportPlugin installed
struct Built20 {
    std::vector<UtestShell*> shells;
    TestRegistry reg;
    vo::ScriptedPlugin plugin;
    MockSupportPlugin mockPlugin;
    explicit Built20(const vo::Registry& r) : mockPlugin("MockSupportPlugin") {
        for (size_t i = 0; i < r.scripts.size(); i++) {
            const vo::Script* s = &r.scripts[i];
            bool stop = g_stop.count(i) != 0;
            unsigned slow = g_slow.count(i) ? g_slow[i] : 0;
            const std::string* mk = g_mock.count(i) ? &g_mock[i] : 0;
            if (s->ignored) shells.push_back(new vo::ScriptedIgnoredShell(s));
            else if (stop || slow || mk) shells.push_back(new StopShell(s, stop, slow, mk));
            else shells.push_back(new vo::ScriptedShell(s));
        }
        for (size_t i = shells.size(); i > 0; i--) reg.addTest(shells[i - 1]);
        for (size_t i = 0; i < shells.size(); i++) plugin.scripts[shells[i]] = &r.scripts[i];
        reg.installPlugin(&plugin);
        reg.installPlugin(&mockPlugin);      // installed last = its post-test action runs last (after the scripted plugin's)
    }
    ~Built20() { for (size_t i = 0; i < shells.size(); i++) delete shells[i]; }
};

// vo::run_registry with Built20 (the CommandLineTestRunner's repeat loop on one output object)
void run_registry20(const vo::Registry& r, TestOutput& out) {
    vo::stub_clock();
    out.verbose(r.verbosity == 2 ? TestOutput::level_veryVerbose : r.verbosity == 1 ? TestOutput::level_verbose : TestOutput::level_quiet);
    Built20 b(r);
    TestFilter filter(r.filter.c_str());
    if (r.strict) filter.strictMatching();
    if (r.invert) filter.invertMatching();
    if (r.has_filter) b.reg.setNameFilters(&filter);
    for (int i = 1; i <= r.repeat; i++) {
        out.printTestRun((size_t) i, (size_t) r.repeat);
        TestResult result(out);
        b.reg.runAllTests(result);
    }
}

void run_composite(const vo::Registry& reg, int position) {
    std::string sink;
    g_stream.clear();
    {
        CompositeTestOutput comp;                     // owns and deletes its two outputs
        TestOutput* tc = new TeamCityTestOutput;
        TestOutput* other = new SinkOutput(&sink);
        if (position == 1) { comp.setOutputOne(tc); comp.setOutputTwo(other); }
        else { comp.setOutputOne(other); comp.setOutputTwo(tc); }
        run_registry20(reg, comp);
    }
    vh::emit("out %s", vh::hex(g_stream).c_str());
    vh::emit("sink %d", sink.empty() ? 0 : 1);
}

void run_real_io(const vo::Registry& reg) {
    fflush(stdout); fflush(stderr);
    int fd[2];
    if (pipe(fd) != 0) { vh::emit("crash realio-child no-pipe"); return; }
    pid_t pid = fork();
    if (pid == 0) {
        alarm(90);          // generous: on a heavily loaded machine a -p run with a 20 KB message takes tens of seconds
        close(fd[0]);
        dup2(fd[1], 1);
        close(fd[1]);
        setvbuf(stdout, 0, _IOFBF, 0);          // what stdout is when it goes to a pipe or a file
        PlatformSpecificFPuts = g_real_fputs;
        PlatformSpecificFlush = g_real_flush;
        vo::stub_clock();
        if (reg.separate) g_runner_pid = getpid();
        int rc;
        {
            Built20 b(reg);
            b.reg.setCurrentRegistry(&b.reg);
            std::vector<std::string> args;
            args.push_back("h_c20");
            args.push_back("-oteamcity");
            if (reg.verbosity == 1) args.push_back("-v");
            if (reg.verbosity == 2) args.push_back("-vv");
            if (reg.separate) args.push_back("-p");
            if (reg.repeat > 1) args.push_back(std::string("-r") + (char) ('0' + reg.repeat));
            if (reg.has_filter) {
                args.push_back(reg.strict ? (reg.invert ? "-xsn" : "-sn") : (reg.invert ? "-xn" : "-n"));
                args.push_back(reg.filter);
            }
            std::vector<const char*> argv;
            for (size_t i = 0; i < args.size(); i++) argv.push_back(args[i].c_str());
            rc = CommandLineTestRunner::RunAllTests((int) argv.size(), &argv[0]);
            b.reg.setCurrentRegistry(0);
        }
        (void) rc;
        fflush(stdout);
        _exit(0);
    }
    close(fd[1]);
    std::string data;
    char buf[65536]; ssize_t n;
    while ((n = read(fd[0], buf, sizeof buf)) > 0 || (n < 0 && errno == EINTR)) if (n > 0) data.append(buf, (size_t) n);
    close(fd[0]);
    int st = 0;
    while (waitpid(pid, &st, 0) < 0 && errno == EINTR) { }
    vh::emit("%s %s", reg.separate ? "outp" : "out", vh::hex(data).c_str());
    if (WIFSIGNALED(st)) vh::emit("crash realio-child signal %d", WTERMSIG(st));
    else if (WIFEXITED(st) && WEXITSTATUS(st) != 0) vh::emit("crash realio-child exit %d", WEXITSTATUS(st));
}

void run_case(const vh::Case& c) {
    vo::Registry reg;
    int composite = 0;
    g_stop.clear(); g_slow.clear(); g_mock.clear();
    if (!g_real_fputs) { g_real_fputs = PlatformSpecificFPuts; g_real_flush = PlatformSpecificFlush; }
    PlatformSpecificFPuts = capture_fputs;
    PlatformSpecificFlush = no_flush;
    for (size_t i = 0; i < c.ops.size(); i++) {
        const vh::Words& w = c.ops[i];
        if (w[0] == "run" && w.size() == 1) {
            vh::emit_op("run");
            if (reg.realio) { run_real_io(reg); continue; }
            if (composite) { run_composite(reg, composite); continue; }
            g_stream.clear();
            {
                TeamCityTestOutput out;
                run_registry20(reg, out);
            }
            vh::emit("out %s", vh::hex(g_stream).c_str());
        }
        else if (w[0] == "childstop" && w.size() == 1) {
            if (!reg.scripts.empty()) g_stop[reg.scripts.size() - 1] = true;
            vh::emit_op("childstop");
        }
        else if (w[0] == "slow" && w.size() == 2 && vo::is_number(w[1]) && vh::to_u64(w[1]) <= 2000) {
            if (!reg.scripts.empty()) g_slow[reg.scripts.size() - 1] = (unsigned) vh::to_u64(w[1]);
            vh::emit_op(vo::join(w));
        }
        else if (w[0] == "mockleft" && w.size() == 2 && vo::is_hex(w[1])) {
            if (!reg.scripts.empty()) g_mock[reg.scripts.size() - 1] = vh::unhex(w[1]);
            vh::emit_op(vo::join(w));
        }
        else if (w[0] == "composite" && w.size() == 2 && (w[1] == "1" || w[1] == "2")) { composite = w[1][0] - '0'; vh::emit_op(vo::join(w)); }
        else if (vo::apply_op(reg, w)) vh::emit_op(vo::join(w));
        else vh::emit("> skip");
    }
}

} // namespace

int main() { return vh::run_all(run_case, 120); }
