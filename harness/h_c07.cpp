// C07 correspondence harness: the real MemoryLeakWarningPlugin in a private TestRegistry with
// scripted tests.  Every test is a UtestShell whose Utest interprets a script of
// alloc / free / realloc / expect / ignore / fail commands.  Phases of a test:
//   o  "outside": just before the test's pre action (memory operations between tests; also
//      `overloads on|off` and `separate`)
//   c  the constructor of the Utest object (createTest, INSIDE the leak window), memory operations only
//   s  setup      b  body      t  teardown
//   d  the destructor of the Utest object (destroyTest, INSIDE the window), memory operations only
//
// Modes (first op line):
//   mode private              private MemoryLeakDetector, allocations made by calling
//                             allocMemory/deallocMemory/reallocMemory on it with an ARENA allocator
//                             that hands out chosen addresses: every block lands in one of three
//                             hash buckets of the detector's table (address % 73 in {0, 8, 16}), so
//                             new blocks routinely share a bucket with older live ones
//   mode private nooverloads  the same with MemoryLeakWarningPlugin::turnOffNewDeleteOverloads()
//   mode global               the global detector with real operator new / new[] / cpputest_malloc
//   mode runner               the whole run is made by the real CommandLineTestRunner::RunAllTests(2, {"h_c07", "-v"}) on
//                             the current registry: the runner constructs and installs the leak plugin itself (after the
//                             scripted plugins of the `plugins` line, which are therefore all behind it), installs its
//                             SetPointerPlugin, prints through ConsoleTestOutput (the PlatformSpecificFPuts seam is wrapped
//                             and the console text is parsed back into per-test failures and leak reports), asks for
//                             FinalReport(0) when the run passed, removes the plugin; the plugin's destructor destroys the
//                             global detector.  Phase-o commands and `separate` are not available in this mode.
//
// `realloc <old> <new> <size>` is the tracked realloc of block <old> (private: detector.reallocMemory,
// global: cpputest_realloc_location on malloc blocks); `realloc-fail <old> <size>` is the same call
// with the PlatformSpecificRealloc seam wrapped so that the platform realloc returns NULL (the seam
// is restored before the case ends).
//
// `cmd <t> o separate` runs test <t> in a separate process (UtestShell::setRunInSeperateProcess):
// pre action, test and post action then happen in a forked child.  The per-test tables live in
// shared memory, so the child's trace (and its leak report) is still printed; the block table
// (label -> pointer) is private to each process, as the memory is.
//
// `cmd <t> <o|s|b|t> plugin2 keep|destroy` constructs a SECOND MemoryLeakWarningPlugin object (on its own
// private detector, never installed; placement new into static storage) and keeps it alive or destroys
// it at once.  Declarations are made with the real macros EXPECT_N_LEAKS / IGNORE_ALL_LEAKS_IN_TEST,
// which go through MemoryLeakWarningPlugin::getFirstPlugin().
//
// `plugins <tokens>` gives the INSTALLATION order of the plugins of the registry: `L` is the leak plugin, `1`..`4`
// are scripted plugins (class ScriptPlugin : TestPlugin) whose pre / post action for test <t> performs the
// commands `cmd <t> p<k> …` / `cmd <t> q<k> …` (alloc / free / realloc / realloc-fail, and `fail` = a failure added
// with result.addFailure as MockSupportPlugin does for unmet expectations).  Without the line only the leak plugin
// is installed.  `cmd <t> o disable <k>` / `enable <k>` finds scripted plugin <k> with the real
// TestRegistry::getPluginByName and disables / enables it before test <t>.  The leak plugin is a subclass that
// only notes WHEN its pre and post action run and calls the real ones; the trace prints the plugin actions, `> pre`
// and `> post` in the order in which they were observed, and `order …` under `> done` repeats that order.
//
// Nothing in the harness allocates through operator new between a pre and a post action except
// the test object itself (created and destroyed inside the window by the runner): all
// bookkeeping lives in static tables and the trace is printed after the run.
#include "common.h"
#include <sys/mman.h>
#include "CppUTest/TestHarness.h"
#include "CppUTest/TestRegistry.h"
#include "CppUTest/TestOutput.h"
#include "CppUTest/TestResult.h"
#include "CppUTest/TestFailure.h"
#include "CppUTest/TestMemoryAllocator.h"
#include "CppUTest/MemoryLeakDetector.h"
#include "CppUTest/MemoryLeakWarningPlugin.h"
#include "CppUTest/MemoryLeakDetectorMallocMacros.h"
#include "CppUTest/PlatformSpecificFunctions_c.h"
#include "CppUTest/CommandLineTestRunner.h"

#undef new
#undef malloc
#undef free
#undef calloc
#undef realloc
#undef strdup
#undef strndup

namespace {

enum { MAXT = 48, MAXC = 40, MAXL = 2048, MSG = 12000, NPH = 6, NSP = 4, MAXPC = 12, LEAK = 9 };
enum { PH_O = 0, PH_C = 1, PH_S = 2, PH_B = 3, PH_T = 4, PH_D = 5 };
enum Kind { K_ALLOC, K_FREE, K_EXPECT, K_IGNORE, K_FAIL, K_REALLOC, K_REALLOC_FAIL, K_OVERLOADS, K_SEPARATE, K_PLUGIN2, K_ABLE };
enum Note { N_SKIPPED, N_OK, N_DUP, N_NOLIVE, N_BADKIND, N_UNEXPECTED };
enum AKind { A_NEW, A_NEWARR, A_MALLOC };

struct Cmd {
    int kind; int label; size_t arg; int akind;
    int label2;                                 // realloc: label of the resulting block
    int note; unsigned num;
};
struct TestDef {
    int label;
    Cmd cmds[NPH][MAXC]; int n[NPH];
    Cmd pcmds[NSP][2][MAXPC]; int pn[NSP][2];   // scripted plugins: [k-1][0 = pre action, 1 = post action]
    unsigned char ev[2][NSP + 2]; int nev[2];   // observed order of the pre / post actions (plugin number, LEAK)
    int nfailAtPre, nfailAtPost; size_t fcAtPost; bool sawPre, sawPost;
    size_t fcBefore, fcAfter;
    int nfail; int nleakfail; int parentFail; long warnN; bool ran; bool separate;
    char msg[MSG];                              // text of the failure added outside the phases
};
struct Block { void* p; size_t size; int akind; };

TestDef* g_tests = 0;                           // MAXT entries in shared memory
int g_ntests = 0;
Block g_blocks[MAXL];                           // private to each process
int g_cur = -1;
bool g_inPhase = false;
bool g_inPlugin = false;
TestRegistry* g_registry = 0;
bool g_global = false;
bool g_runner = false;
bool g_nooverloads = false;
pid_t g_casePid = 0;
MemoryLeakDetector* g_det = 0;
TestMemoryAllocator* g_alloc = 0;
TestResult* g_result = 0;

const char* const FILE_NAME = "h_c07.cpp";

// ---- arena with chosen addresses (private mode)
//
// slot i starts at base + i*STRIDE + (i % 3)*8 with base % 73 == 0 and STRIDE = 73*8, so that
// `address % 73` (the detector's hash) is (i % 3)*8.  Requests that do not fit go to the platform.
enum { STRIDE = 73 * 8, NSLOTS = 1536, USABLE = STRIDE - 16 };
char g_arenaRaw[(size_t) STRIDE * (NSLOTS + 2)];
char* g_arenaBase = 0;
bool g_slotUsed[NSLOTS];

void arena_init() {
    char* p = g_arenaRaw;
    while (((size_t) p % 8) != 0 || ((size_t) p % 73) != 0) p++;
    g_arenaBase = p;
    memset(g_slotUsed, 0, sizeof(g_slotUsed));
}
inline char* slot_ptr(int i) { return g_arenaBase + (size_t) i * STRIDE + (size_t) (i % 3) * 8; }
inline bool in_arena(const void* p) {
    return g_arenaBase && (const char*) p >= g_arenaBase && (const char*) p < g_arenaBase + (size_t) STRIDE * NSLOTS;
}
inline int slot_of(const void* p) { return (int) (((const char*) p - g_arenaBase) / STRIDE); }
char* arena_alloc(size_t size) {
    if (size > USABLE) return 0;
    for (int i = 0; i < NSLOTS; i++) if (!g_slotUsed[i]) { g_slotUsed[i] = true; return slot_ptr(i); }
    return 0;
}

class ArenaAllocator : public TestMemoryAllocator {
public:
    ArenaAllocator() : TestMemoryAllocator("c07 arena allocator", "c07alloc", "c07free") {}
    char* alloc_memory(size_t size, const char*, size_t) CPPUTEST_OVERRIDE {
        char* p = arena_alloc(size);
        return p ? p : (char*) PlatformSpecificMalloc(size);
    }
    void free_memory(char* memory, size_t, const char*, size_t) CPPUTEST_OVERRIDE {
        if (in_arena(memory)) g_slotUsed[slot_of(memory)] = false;
        else PlatformSpecificFree(memory);
    }
};

// ---- the PlatformSpecificRealloc seam
void* (*g_realRealloc)(void*, size_t) = 0;
bool g_failRealloc = false;
void* wrapped_realloc(void* p, size_t n) {
    if (g_failRealloc) return 0;
    if (p && in_arena(p)) {                       // a block of the arena moves to another slot (or out of it)
        char* q = arena_alloc(n);
        if (!q) q = (char*) PlatformSpecificMalloc(n);
        if (!q) return 0;
        memcpy(q, p, n < (size_t) USABLE ? n : (size_t) USABLE);
        g_slotUsed[slot_of(p)] = false;
        return q;
    }
    return g_realRealloc(p, n);
}

void* do_alloc(size_t size, int akind, int label) {
    void* p = 0;
    size_t line = (size_t) (1000 + label);
    if (!g_global) p = g_det->allocMemory(g_alloc, size, FILE_NAME, line);
    else if (akind == A_NEW) p = ::operator new(size, FILE_NAME, line);
    else if (akind == A_NEWARR) p = ::operator new[](size, FILE_NAME, line);
    else p = cpputest_malloc_location(size, FILE_NAME, line);
    if (p) memset(p, 0x11, size);
    return p;
}

void do_free(Block& b) {
    if (!g_global) g_det->deallocMemory(g_alloc, b.p, FILE_NAME, 1);
    else if (b.akind == A_NEW) ::operator delete(b.p);
    else if (b.akind == A_NEWARR) ::operator delete[](b.p);
    else cpputest_free_location(b.p, FILE_NAME, 1);
    b.p = 0;
}

void* do_realloc(Block& b, size_t size, int label) {
    size_t line = (size_t) (1000 + label);
    if (!g_global) return g_det->reallocMemory(g_alloc, (char*) b.p, size, FILE_NAME, line);
    return cpputest_realloc_location(b.p, size, FILE_NAME, line);
}

void exec_realloc(Cmd& c) {
    Block& b = g_blocks[c.label];
    if (!b.p) { c.note = N_NOLIVE; return; }
    if (g_global && b.akind != A_MALLOC) { c.note = N_BADKIND; return; }   // realloc is for malloc'ed blocks
    if (c.kind == K_REALLOC) {
        Block& nb = g_blocks[c.label2];
        if (c.label2 != c.label && nb.p) { c.note = N_DUP; return; }
        c.num = g_det->getCurrentAllocationNumber();
        void* p = do_realloc(b, c.arg, c.label2);
        if (!p) { c.note = N_UNEXPECTED; return; }
        int akind = b.akind;
        b.p = 0;
        nb.p = p; nb.size = c.arg; nb.akind = akind;
        memset(p, 0x11, c.arg);
        c.note = N_OK;
    }
    else {
        g_failRealloc = true;
        void* p = do_realloc(b, c.arg, c.label);
        g_failRealloc = false;
        if (p) { b.p = p; b.size = c.arg; c.note = N_UNEXPECTED; return; }
        c.note = N_OK;                      // the old block is untouched and still ours
    }
}

// ---- further plugin objects (never installed)
enum { MAXP2 = 64 };
alignas(16) char g_p2storage[MAXP2][sizeof(MemoryLeakWarningPlugin)];
int g_p2count = 0;
MemoryLeakDetector* g_otherDetector = 0;

void exec_plugin2(Cmd& c) {
    if (g_p2count >= MAXP2 || !g_otherDetector) { c.note = N_SKIPPED; return; }
    MemoryLeakWarningPlugin* p = ::new ((void*) g_p2storage[g_p2count++]) MemoryLeakWarningPlugin("c07 second plugin", g_otherDetector);
    if (!c.arg) p->~MemoryLeakWarningPlugin();
    c.note = N_OK;
}

bool is_mem(int kind) { return kind == K_ALLOC || kind == K_FREE || kind == K_REALLOC || kind == K_REALLOC_FAIL; }

void exec_mem(Cmd& c) {
    if (c.kind == K_REALLOC || c.kind == K_REALLOC_FAIL) { exec_realloc(c); return; }
    Block& b = g_blocks[c.label];
    if (c.kind == K_ALLOC) {
        if (b.p) { c.note = N_DUP; return; }
        c.num = g_det->getCurrentAllocationNumber();
        b.p = do_alloc(c.arg, c.akind, c.label); b.size = c.arg; b.akind = c.akind;
        c.note = N_OK;
    }
    else {
        if (!b.p) { c.note = N_NOLIVE; return; }
        do_free(b);
        c.note = N_OK;
    }
}

// constructor / destructor of the test object: memory operations only
void run_mem_phase(int t, int ph) {
    TestDef& d = g_tests[t];
    for (int i = 0; i < d.n[ph]; i++) if (is_mem(d.cmds[ph][i].kind)) exec_mem(d.cmds[ph][i]);
}

struct PhaseGuard {            // a failing check leaves the phase by an exception
    PhaseGuard() { g_inPhase = true; }
    ~PhaseGuard() { g_inPhase = false; }
};

void run_phase(int t, int ph) {
    TestDef& d = g_tests[t];
    PhaseGuard guard;
    for (int i = 0; i < d.n[ph]; i++) {
        Cmd& c = d.cmds[ph][i];
        switch (c.kind) {
        case K_ALLOC: case K_FREE: case K_REALLOC: case K_REALLOC_FAIL: exec_mem(c); break;
        case K_EXPECT: c.note = N_OK; EXPECT_N_LEAKS(c.arg); break;
        case K_IGNORE: c.note = N_OK; IGNORE_ALL_LEAKS_IN_TEST(); break;
        case K_PLUGIN2: exec_plugin2(c); break;
        case K_FAIL:
            c.note = N_OK;
            UtestShell::getCurrent()->fail("own failure", FILE_NAME, 1);   // does not return
            break;
        default: break;
        }
    }
}

// ---- other plugins of the chain, and the leak plugin with its actions observed
int shell_index(UtestShell& test);

class ScriptPlugin : public TestPlugin {
public:
    int k_;
    ScriptPlugin(const char* name, int k) : TestPlugin(name), k_(k) {}
    void act(int which, UtestShell& test, TestResult& result) {
        int cur = shell_index(test);
        if (cur < 0) return;
        TestDef& d = g_tests[cur];
        if (d.nev[which] < NSP + 2) d.ev[which][d.nev[which]++] = (unsigned char) k_;
        g_inPlugin = true;
        for (int i = 0; i < d.pn[k_ - 1][which]; i++) {
            Cmd& c = d.pcmds[k_ - 1][which][i];
            if (is_mem(c.kind)) exec_mem(c);
            else if (c.kind == K_FAIL) {
                c.note = N_OK;
                TestFailure f(&test, FILE_NAME, 1, "failure added by a plugin");
                result.addFailure(f);
            }
        }
        g_inPlugin = false;
    }
    void preTestAction(UtestShell& test, TestResult& result) CPPUTEST_OVERRIDE { act(0, test, result); }
    void postTestAction(UtestShell& test, TestResult& result) CPPUTEST_OVERRIDE { act(1, test, result); }
};

class ObsLeakPlugin : public MemoryLeakWarningPlugin {
public:
    ObsLeakPlugin(const char* name, MemoryLeakDetector* localDetector) : MemoryLeakWarningPlugin(name, localDetector) {}
    void preTestAction(UtestShell& test, TestResult& result) CPPUTEST_OVERRIDE {
        if (g_cur >= 0) {
            TestDef& d = g_tests[g_cur];
            if (d.nev[0] < NSP + 2) d.ev[0][d.nev[0]++] = LEAK;
            d.nfailAtPre = d.nfail; d.sawPre = true;
        }
        MemoryLeakWarningPlugin::preTestAction(test, result);
    }
    void postTestAction(UtestShell& test, TestResult& result) CPPUTEST_OVERRIDE {
        MemoryLeakWarningPlugin::postTestAction(test, result);
        if (g_cur >= 0) {
            TestDef& d = g_tests[g_cur];
            if (d.nev[1] < NSP + 2) d.ev[1][d.nev[1]++] = LEAK;
            d.nfailAtPost = d.nfail; d.fcAtPost = result.getFailureCount(); d.sawPost = true;
        }
    }
};

alignas(16) char g_spStorage[NSP][sizeof(ScriptPlugin)];
ScriptPlugin* g_sp[NSP];
const char* const SP_NAMES[NSP] = { "c07s1", "c07s2", "c07s3", "c07s4" };

class ScriptTest : public Utest {
public:
    int t_;
    explicit ScriptTest(int t) : t_(t) { run_mem_phase(t_, PH_C); }
    ~ScriptTest() CPPUTEST_DESTRUCTOR_OVERRIDE { run_mem_phase(t_, PH_D); }
    void setup() CPPUTEST_OVERRIDE { run_phase(t_, PH_S); }
    void testBody() CPPUTEST_OVERRIDE { run_phase(t_, PH_B); }
    void teardown() CPPUTEST_OVERRIDE { run_phase(t_, PH_T); }
};

class ScriptShell : public UtestShell {
public:
    int t_;
    ScriptShell() : UtestShell("c07", "scripted", "h_c07.cpp", 1), t_(0) {}
    Utest* createTest() CPPUTEST_OVERRIDE { return new ScriptTest(t_); }
};

ScriptShell g_shells[MAXT];
char g_names[MAXT][16];
int shell_index(UtestShell& test) {
    ScriptShell* s = (ScriptShell*) &test;
    return (s >= g_shells && s < g_shells + MAXT) ? s->t_ : -1;
}

// ---- mode runner: console text captured at the PlatformSpecificFPuts seam
enum { CONSOLE_MAX = 1 << 20 };
char g_console[CONSOLE_MAX];
size_t g_consoleLen = 0;
void (*g_realFPuts)(const char*, PlatformSpecificFile) = 0;
void capture_fputs(const char* s, PlatformSpecificFile f) {
    if (f != PlatformSpecificStdOut) { g_realFPuts(s, f); return; }
    size_t n = strlen(s);
    if (g_consoleLen + n + 1 < CONSOLE_MAX) { memcpy(g_console + g_consoleLen, s, n); g_consoleLen += n; g_console[g_consoleLen] = 0; }
}

// the console text of a -v run, cut into per-test segments; fills the same fields RecOutput fills in the other modes
const char* parse_console() {
    const char* starts[MAXT + 1];
    const char* pos = g_console;
    for (int i = 0; i < g_ntests; i++) {
        char marker[40]; snprintf(marker, sizeof marker, "TEST(c07, %s)", g_names[i]);
        const char* p = pos; starts[i] = 0;
        while ((p = strstr(p, marker)) != 0) {
            if (p - g_console >= 11 && strncmp(p - 11, "Failure in ", 11) == 0) { p++; continue; }
            starts[i] = p; pos = p + 1; break;
        }
    }
    const char* summary = 0;
    for (const char* q = g_console; (q = strstr(q, "\nOK (")) != 0; q++) summary = q;
    for (const char* q = g_console; (q = strstr(q, "\nErrors (")) != 0; q++) if (!summary || q > summary) summary = q;
    const char* endAll = summary ? summary : g_console + g_consoleLen;
    size_t cum = 0;
    for (int i = 0; i < g_ntests; i++) {
        TestDef& d = g_tests[i];
        if (!starts[i]) continue;
        const char* end = endAll;
        for (int j = i + 1; j < g_ntests; j++) if (starts[j]) { end = starts[j]; break; }
        d.ran = true;
        for (const char* f = starts[i]; (f = strstr(f, "error: Failure in TEST(")) != 0 && f < end; f++) {
            d.nfail++;
            const char* next = strstr(f + 1, "error: Failure in TEST(");
            const char* fend = (next && next < end) ? next : end;
            const char* leak = strstr(f, "Memory leak(s) found.");
            const char* none = strstr(f, "No memory leaks were detected.");
            if ((leak && leak < fend) || (none && none < fend)) {
                d.nleakfail++;
                size_t n = (size_t) (fend - f); if (n >= MSG) n = MSG - 1;
                memcpy(d.msg, f, n); d.msg[n] = 0;
            }
        }
        cum += (size_t) d.nfail;
        d.nfailAtPre = 0; d.nfailAtPost = d.nfail; d.fcAtPost = cum; d.fcAfter = cum; d.sawPre = d.sawPost = true;
        // the leak plugin is the one the runner installed last: its pre action first, its post action last
        for (int e = d.nev[0]; e > 0; e--) d.ev[0][e] = d.ev[0][e - 1];
        d.ev[0][0] = LEAK; d.nev[0]++;
        d.ev[1][d.nev[1]++] = LEAK;
    }
    if (!summary) return "";
    const char* fin = strstr(summary + 1, " ms)");
    if (!fin) return "";
    fin += 4;
    while (*fin == '\n' || *fin == ' ') fin++;
    return fin;
}

class RecOutput : public TestOutput {
public:
    void printBuffer(const char* s) CPPUTEST_OVERRIDE {
        const char* w = strstr(s, "Warning: Expected ");
        if (g_cur >= 0 && w && strstr(s, "leak detection was disabled"))
            g_tests[g_cur].warnN = strtol(w + strlen("Warning: Expected "), 0, 10);
    }
    void flush() CPPUTEST_OVERRIDE {}
    void printCurrentTestStarted(const UtestShell& test) CPPUTEST_OVERRIDE {
        g_cur = ((const ScriptShell&) test).t_;
        TestDef& d = g_tests[g_cur];
        d.ran = true;
        for (int i = 0; i < d.n[PH_O]; i++) {        // phase o: alloc / free and switches only
            Cmd& c = d.cmds[PH_O][i];
            if (c.kind == K_ALLOC || c.kind == K_FREE) exec_mem(c);
            else if (c.kind == K_OVERLOADS && !g_global) {
                if (c.arg) MemoryLeakWarningPlugin::turnOnDefaultNotThreadSafeNewDeleteOverloads();
                else MemoryLeakWarningPlugin::turnOffNewDeleteOverloads();
                c.note = N_OK;
            }
            else if (c.kind == K_SEPARATE) c.note = N_OK;
            else if (c.kind == K_PLUGIN2) exec_plugin2(c);
            else if (c.kind == K_ABLE && g_registry) {
                TestPlugin* p = (c.label >= 1 && c.label <= NSP) ? g_registry->getPluginByName(SP_NAMES[c.label - 1]) : 0;
                if (p) { if (c.arg) p->enable(); else p->disable(); c.note = N_OK; }
            }
        }
        d.fcBefore = g_result->getFailureCount();
    }
    void printCurrentTestEnded(const TestResult& res) CPPUTEST_OVERRIDE {
        if (g_cur >= 0) g_tests[g_cur].fcAfter = res.getFailureCount();
        g_inPhase = false;
    }
    void printFailure(const TestFailure& failure) CPPUTEST_OVERRIDE {
        if (g_cur < 0) return;
        TestDef& d = g_tests[g_cur];
        SimpleString message = failure.getMessage();
        const char* m = message.asCharString();
        if (d.separate && getpid() == g_casePid) {          // the parent's verdict about the child
            d.parentFail += strncmp(m, "Failed in separate process", 26) == 0 ? 1 : 100;
            return;
        }
        d.nfail++;
        if (!g_inPhase && !g_inPlugin) {
            d.nleakfail++;
            size_t n = strlen(m); if (n >= MSG) n = MSG - 1;
            memcpy(d.msg, m, n); d.msg[n] = 0;
        }
    }
    void printTestsStarted() CPPUTEST_OVERRIDE {}
    void printTestsEnded(const TestResult&) CPPUTEST_OVERRIDE {}
    void printCurrentGroupStarted(const UtestShell&) CPPUTEST_OVERRIDE {}
    void printCurrentGroupEnded(const TestResult&) CPPUTEST_OVERRIDE {}
    void printTestRun(size_t, size_t) CPPUTEST_OVERRIDE {}
};

class RecLeakFailure : public MemoryLeakFailure {
public:
    int count;
    RecLeakFailure() : count(0) {}
    void fail(char*) CPPUTEST_OVERRIDE { count++; }
};

// ---- report text -> canonical observation lines

struct Entry { unsigned long num, size; };
bool entry_less(const Entry& a, const Entry& b) { return a.num < b.num || (a.num == b.num && a.size < b.size); }

void emit_report(const char* what, const char* text) {
    bool header = strstr(text, "Memory leak(s) found.") != 0;
    bool none = strstr(text, "No memory leaks were detected.") != 0;
    bool trunc = strstr(text, "Too many memory leaks to report") != 0;
    std::vector<Entry> es;
    const char* p = text;
    while ((p = strstr(p, "Alloc num (")) != 0) {
        Entry e; e.num = 0; e.size = 0;
        if (sscanf(p, "Alloc num (%lu) Leak size: %lu", &e.num, &e.size) == 2) es.push_back(e);
        p += 11;
    }
    long total = -1;
    const char* q = text; const char* last = 0;
    while ((q = strstr(q, "Total number of leaks:")) != 0) { last = q; q += 10; }
    if (last) total = strtol(last + strlen("Total number of leaks:"), 0, 10);
    std::sort(es.begin(), es.end(), entry_less);
    const char* kind = header ? "report" : none ? "noleaks" : text[0] == 0 ? "empty" : "other";
    vh::emit("%s %s total %ld trunc %d", what, kind, total, trunc ? 1 : 0);
    // a truncated report does not list every block (and its last entry may be cut): entries are
    // compared only for complete reports
    if (!trunc) for (size_t i = 0; i < es.size(); i++) vh::emit("entry %lu %lu", es[i].num, es[i].size);
    if (!header && !none && text[0]) vh::emit("text %s", vh::hex(std::string(text).substr(0, 60)).c_str());
}

const char* phase_name(int ph) { return ph == PH_O ? "o" : ph == PH_C ? "c" : ph == PH_S ? "s" : ph == PH_B ? "b" : ph == PH_T ? "t" : "d"; }

void emit_cmd(int ph, const Cmd& c, const char* pname = 0) {
    const char* p = pname ? pname : phase_name(ph);
    switch (c.kind) {
    case K_ALLOC: vh::emit("> cmd %s alloc %d %lu", p, c.label, (unsigned long) c.arg); break;
    case K_FREE: vh::emit("> cmd %s free %d", p, c.label); break;
    case K_EXPECT: vh::emit("> cmd %s expect %lu", p, (unsigned long) c.arg); break;
    case K_IGNORE: vh::emit("> cmd %s ignore", p); break;
    case K_FAIL: vh::emit("> cmd %s fail", p); break;
    case K_REALLOC: vh::emit("> cmd %s realloc %d %d %lu", p, c.label, c.label2, (unsigned long) c.arg); break;
    case K_REALLOC_FAIL: vh::emit("> cmd %s realloc-fail %d %lu", p, c.label, (unsigned long) c.arg); break;
    case K_OVERLOADS: vh::emit("> cmd %s overloads %s", p, c.arg ? "on" : "off"); break;
    case K_SEPARATE: vh::emit("> cmd %s separate", p); break;
    case K_PLUGIN2: vh::emit("> cmd %s plugin2 %s", p, c.arg ? "keep" : "destroy"); break;
    case K_ABLE: vh::emit("> cmd %s %s %d", p, c.arg ? "enable" : "disable", c.label); break;
    }
    switch (c.note) {
    case N_SKIPPED: vh::emit("skipped"); break;
    case N_OK: if (c.kind == K_ALLOC || c.kind == K_REALLOC) vh::emit("num %u", c.num); else vh::emit("ok"); break;
    case N_DUP: vh::emit("dup"); break;
    case N_NOLIVE: vh::emit("nolive"); break;
    case N_BADKIND: vh::emit("badkind"); break;
    case N_UNEXPECTED: vh::emit("unexpected-realloc-result"); break;
    }
}

int find_test(int label) {
    for (int i = 0; i < g_ntests; i++) if (g_tests[i].label == label) return i;
    return -1;
}
int declare_test(int label) {
    int i = find_test(label);
    if (i >= 0) return i;
    if (g_ntests >= MAXT) return -1;
    g_tests[g_ntests].label = label;
    g_tests[g_ntests].warnN = -1;
    return g_ntests++;
}

int phase_of(const std::string& s) {
    return s == "o" ? PH_O : s == "c" ? PH_C : s == "s" ? PH_S : s == "b" ? PH_B : s == "t" ? PH_T : s == "d" ? PH_D : -1;
}

void run_case(const vh::Case& c) {
    bool final_report = false; size_t final_arg = 0; bool destroy = false;
    std::vector<int> install;                       // installation order: LEAK or 1..NSP
    g_casePid = getpid();
    g_tests = (TestDef*) mmap(0, sizeof(TestDef) * MAXT, PROT_READ | PROT_WRITE, MAP_SHARED | MAP_ANONYMOUS, -1, 0);
    if (g_tests == (TestDef*) MAP_FAILED) { vh::emit("harness-error mmap"); return; }
    memset(g_tests, 0, sizeof(TestDef) * MAXT);
    arena_init();
    // ---- parse into the static tables
    for (size_t i = 0; i < c.ops.size(); i++) {
        const vh::Words& w = c.ops[i];
        if (w[0] == "mode" && w.size() >= 2) {
            g_runner = w[1] == "runner";
            g_global = w[1] == "global" || g_runner;
            g_nooverloads = !g_global && w.size() >= 3 && w[2] == "nooverloads";
        }
        else if (w[0] == "test" && w.size() >= 2) declare_test((int) vh::to_u64(w[1]));
        else if (w[0] == "plugins" && install.empty()) {
            for (size_t k = 1; k < w.size(); k++) {
                int v = w[k] == "L" ? LEAK : (w[k].size() == 1 && w[k][0] >= '1' && w[k][0] <= '0' + NSP) ? w[k][0] - '0' : 0;
                if (v && std::find(install.begin(), install.end(), v) == install.end()) install.push_back(v);
            }
        }
        else if (w[0] == "final") { final_report = true; final_arg = w.size() >= 2 ? (size_t) vh::to_u64(w[1]) : 0; }   // private mode only (see below)
        else if (w[0] == "destroy") destroy = true;                                                                // global mode only
        else if (w[0] == "cmd" && w.size() >= 4) {         // cmd <test> <phase> <kind> [args]
            int t = declare_test((int) vh::to_u64(w[1]));
            int ph = phase_of(w[2]);
            int pk = 0, pwhich = 0;                  // p<k> / q<k>: pre / post action of scripted plugin k
            if (ph < 0 && w[2].size() == 2 && (w[2][0] == 'p' || w[2][0] == 'q') && w[2][1] >= '1' && w[2][1] <= '0' + NSP) {
                pk = w[2][1] - '0'; pwhich = w[2][0] == 'q' ? 1 : 0;
            }
            if (t < 0) continue;
            if (g_runner && (ph == PH_O)) continue;
            if (pk) { if (g_tests[t].pn[pk - 1][pwhich] >= MAXPC) continue; }
            else if (ph < 0 || g_tests[t].n[ph] >= MAXC) continue;
            Cmd cm; cm.kind = -1; cm.label = 0; cm.label2 = 0; cm.arg = 0; cm.akind = A_NEW; cm.note = N_SKIPPED; cm.num = 0;
            if (w[3] == "alloc" && w.size() >= 6) {
                cm.kind = K_ALLOC; cm.label = (int) (vh::to_u64(w[4]) % MAXL); cm.arg = (size_t) (vh::to_u64(w[5]) % 4096);
                if (w.size() >= 7) cm.akind = w[6] == "newarr" ? A_NEWARR : w[6] == "malloc" ? A_MALLOC : A_NEW;
            }
            else if (w[3] == "realloc" && w.size() >= 7) {
                cm.kind = K_REALLOC; cm.label = (int) (vh::to_u64(w[4]) % MAXL); cm.label2 = (int) (vh::to_u64(w[5]) % MAXL);
                cm.arg = (size_t) (vh::to_u64(w[6]) % 4096);
            }
            else if (w[3] == "realloc-fail" && w.size() >= 6) {
                cm.kind = K_REALLOC_FAIL; cm.label = (int) (vh::to_u64(w[4]) % MAXL); cm.arg = (size_t) (vh::to_u64(w[5]) % 4096);
            }
            else if (w[3] == "free" && w.size() >= 5) { cm.kind = K_FREE; cm.label = (int) (vh::to_u64(w[4]) % MAXL); }
            else if (w[3] == "expect" && w.size() >= 5) { cm.kind = K_EXPECT; cm.arg = (size_t) vh::to_u64(w[4]); }
            else if (w[3] == "ignore") cm.kind = K_IGNORE;
            else if (w[3] == "fail") cm.kind = K_FAIL;
            else if (w[3] == "overloads" && w.size() >= 5 && ph == PH_O) { cm.kind = K_OVERLOADS; cm.arg = w[4] == "on" ? 1 : 0; }
            else if (w[3] == "separate" && ph == PH_O) { cm.kind = K_SEPARATE; g_tests[t].separate = true; }
            else if (w[3] == "plugin2" && w.size() >= 5 && ph != PH_C && ph != PH_D) { cm.kind = K_PLUGIN2; cm.arg = w[4] == "keep" ? 1 : 0; }
            else if ((w[3] == "disable" || w[3] == "enable") && w.size() >= 5 && ph == PH_O) {
                cm.kind = K_ABLE; cm.arg = w[3] == "enable" ? 1 : 0; cm.label = (int) (vh::to_u64(w[4]) % 10);
            }
            if (pk) {
                if (is_mem(cm.kind) || cm.kind == K_FAIL) g_tests[t].pcmds[pk - 1][pwhich][g_tests[t].pn[pk - 1][pwhich]++] = cm;
                continue;
            }
            if (cm.kind >= 0) g_tests[t].cmds[ph][g_tests[t].n[ph]++] = cm;
        }
    }

    RecLeakFailure leakFailure;
    ArenaAllocator arenaAllocator;
    g_alloc = &arenaAllocator;
    MemoryLeakWarningPlugin* plugin = 0;
    RecOutput* output = 0; TestResult* result = 0; TestRegistry* registry = 0;
    std::string finalText;
    int runnerResult = 0;
    if (g_runner) {
        // ---- the real runner: it owns the leak plugin, the output and the result
        install.erase(std::remove(install.begin(), install.end(), (int) LEAK), install.end());
        registry = TestRegistry::getCurrentRegistry();
        g_registry = registry;
        for (size_t k = 0; k < install.size(); k++) {
            int j = install[k] - 1;
            g_sp[j] = ::new ((void*) g_spStorage[j]) ScriptPlugin(SP_NAMES[j], install[k]);
            registry->installPlugin(g_sp[j]);
        }
        install.push_back(LEAK);
        for (int i = g_ntests - 1; i >= 0; i--) {
            g_shells[i].t_ = i;
            snprintf(g_names[i], sizeof g_names[i], "t%d", g_tests[i].label);
            g_shells[i].setTestName(g_names[i]);
            registry->addTest(&g_shells[i]);
        }
        g_det = MemoryLeakWarningPlugin::getGlobalDetector();
        g_otherDetector = new MemoryLeakDetector(&leakFailure);
        g_realRealloc = PlatformSpecificRealloc;
        PlatformSpecificRealloc = wrapped_realloc;
        g_realFPuts = PlatformSpecificFPuts;
        PlatformSpecificFPuts = capture_fputs;
        const char* av[] = { "h_c07", "-v" };
        runnerResult = CommandLineTestRunner::RunAllTests(2, av);
        PlatformSpecificFPuts = g_realFPuts;
        PlatformSpecificRealloc = g_realRealloc;
        finalText = parse_console();
        final_report = false; destroy = false;
    }
    else {
    // ---- the real objects: ONE plugin per process (firstPlugin_ is never cleared)
    MemoryLeakDetector* privateDetector = 0;
    if (!g_global) privateDetector = new MemoryLeakDetector(&leakFailure);
    plugin = new ObsLeakPlugin("c07plugin", g_global ? 0 : privateDetector);
    g_det = plugin->getMemoryLeakDetector();
    g_otherDetector = new MemoryLeakDetector(&leakFailure);      // for the plugin objects constructed later

    output = new RecOutput;
    result = new TestResult(*output);
    g_result = result;
    registry = new TestRegistry;
    g_registry = registry;
    if (std::find(install.begin(), install.end(), (int) LEAK) == install.end()) install.push_back(LEAK);
    for (size_t k = 0; k < install.size(); k++) {
        if (install[k] == LEAK) registry->installPlugin(plugin);
        else {
            int j = install[k] - 1;
            g_sp[j] = ::new ((void*) g_spStorage[j]) ScriptPlugin(SP_NAMES[j], install[k]);
            registry->installPlugin(g_sp[j]);
        }
    }
    for (int i = g_ntests - 1; i >= 0; i--) {
        g_shells[i].t_ = i;
        if (g_tests[i].separate) g_shells[i].setRunInSeperateProcess();
        registry->addTest(&g_shells[i]);
    }

    g_realRealloc = PlatformSpecificRealloc;            // wrap the seam for the run only
    PlatformSpecificRealloc = wrapped_realloc;
    if (g_nooverloads) MemoryLeakWarningPlugin::turnOffNewDeleteOverloads();
    registry->runAllTests(*result);
    MemoryLeakWarningPlugin::turnOnDefaultNotThreadSafeNewDeleteOverloads();
    g_cur = -1;

    if (g_global) final_report = false;     // the global table also holds the harness' own objects
    if (final_report) finalText = plugin->FinalReport(final_arg);

    }

    // ---- trace, in script order
    vh::emit("> mode %s%s", g_runner ? "runner" : g_global ? "global" : "private", g_nooverloads ? " nooverloads" : "");
    if (install.size() > 1) {
        std::string l = "> plugins";
        for (size_t k = 0; k < install.size(); k++) l += install[k] == LEAK ? std::string(" L") : " " + std::to_string(install[k]);
        vh::emit("%s", l.c_str());
    }
    for (int t = 0; t < g_ntests; t++) {
        TestDef& d = g_tests[t];
        vh::emit("> test %d", d.label);
        if (!d.ran) { vh::emit("notrun"); continue; }
        for (int i = 0; i < d.n[PH_O]; i++) emit_cmd(PH_O, d.cmds[PH_O][i]);
        char pname[4];
        std::string order = "order";
        for (int e = 0; e < d.nev[0]; e++) {          // pre actions, in the order observed
            if (d.ev[0][e] == LEAK) {
                vh::emit("> pre");
                if (d.nfailAtPre) vh::emit("prefail %d", d.nfailAtPre);
                order += " L";
                continue;
            }
            int k = d.ev[0][e];
            snprintf(pname, sizeof pname, "p%d", k); order += std::string(" ") + pname;
            for (int i = 0; i < d.pn[k - 1][0]; i++) emit_cmd(0, d.pcmds[k - 1][0][i], pname);
        }
        for (int ph = PH_C; ph <= PH_D; ph++) for (int i = 0; i < d.n[ph]; i++) emit_cmd(ph, d.cmds[ph][i]);
        order += " /";
        for (int e = 0; e < d.nev[1]; e++) {          // post actions, in the order observed
            if (d.ev[1][e] == LEAK) {
                vh::emit("> post");
                vh::emit("failures %d", d.nfailAtPost - d.nfailAtPre);
                if (d.nleakfail == 1) emit_report("leakfail", d.msg);
                else if (d.nleakfail > 1) vh::emit("leakfail-many %d", d.nleakfail);
                if (d.warnN >= 0) vh::emit("warn %ld", d.warnN);
                vh::emit("fc %lu", (unsigned long) d.fcAtPost);
                order += " L";
                continue;
            }
            int k = d.ev[1][e];
            snprintf(pname, sizeof pname, "q%d", k); order += std::string(" ") + pname;
            for (int i = 0; i < d.pn[k - 1][1]; i++) emit_cmd(0, d.pcmds[k - 1][1][i], pname);
        }
        vh::emit("> done");
        vh::emit("%s", order.c_str());
        if (d.separate) vh::emit("parentfail %d", d.parentFail);
        vh::emit("fc %lu", (unsigned long) d.fcAfter);
    }
    if (final_report) { vh::emit("> final %lu", (unsigned long) final_arg); emit_report("final", finalText.c_str()); }
    if (g_runner) {
        vh::emit("> runnerend");
        vh::emit("result %d", runnerResult != 0 ? 1 : 0);
        if (runnerResult != 0 && finalText.empty()) vh::emit("final skipped");
        else emit_report("final", finalText.c_str());
        if (leakFailure.count) vh::emit("detector-misuse %d", leakFailure.count);
        fflush(stdout);
        return;                      // the runner has destroyed the global detector: nothing is given back
    }
    if (leakFailure.count) vh::emit("detector-misuse %d", leakFailure.count);
    fflush(stdout);

    // ---- give everything back (not part of the history)
    PlatformSpecificRealloc = g_realRealloc;
    for (int l = 0; l < MAXL; l++) if (g_blocks[l].p) do_free(g_blocks[l]);
    delete registry; delete result; delete output;

    if (destroy && g_global) {
        // the end of CommandLineTestRunner::RunAllTests: the plugin destructor destroys the global detector
        plugin->destroyGlobalDetectorAndTurnOffMemoryLeakDetectionInDestructor(true);
        delete plugin;
        bool on = MemoryLeakWarningPlugin::areNewDeleteOverloaded();
        MemoryLeakDetector* fresh = MemoryLeakWarningPlugin::getGlobalDetector();     // created on demand
        vh::emit("> destroy");
        vh::emit("destroyed overloads %d leaks %lu nextnum %u", on ? 1 : 0,
                 (unsigned long) fresh->totalMemoryLeaks(mem_leak_period_all), fresh->getCurrentAllocationNumber());
        fflush(stdout);
    }
    // otherwise the plugin object stays alive until the process ends (firstPlugin_ keeps pointing to it)
}

} // namespace

int main() { return vh::run_all(run_case); }
