// C13 correspondence harness: interprets operation lines on real SimpleString objects with a
// recording string allocator (ids 1,2,3,... in allocation order; exact-size malloc blocks so that
// ASan sees every out-of-bounds access; fresh blocks filled with a chosen junk byte) and a
// recording wrapper around PlatformSpecificVSNprintf.
//
// Observation lines:
//   alloc <id> <size> / free <id> <size>   string allocator events, in program order
//   vsn <bufsize> <ret> <hex>              one line per vsnprintf call (environment input of the model)
//   val <hex>                              contents of the object created/changed by the operation
//   ret <number|npos|null|hex>             returned scalar
//   buf <hex>                              caller buffer after the call (whole buffer)
//   tok <i> <hex> / ntok <k> / oobtok <hex>   split() result
//   xref <what>                            ONLY when an independent reference (std::string / libc)
//                                          disagrees with the result (the oracle treats it as failure)
#include "common.h"
#include <string>
#include <strings.h>
#include <climits>
#include "CppUTest/TestHarness.h"
#include "CppUTest/SimpleString.h"
#include "CppUTest/TestMemoryAllocator.h"
#include "CppUTest/PlatformSpecificFunctions.h"

#undef new

namespace {

unsigned char g_junk = 0xCD;

struct RecordingAllocator : public TestMemoryAllocator {
    std::map<char*, unsigned long> ids;
    unsigned long next;
    bool quiet;
    RecordingAllocator() : TestMemoryAllocator("recording", "ralloc", "rfree"), next(1), quiet(false) {}
    char* alloc_memory(size_t size, const char*, size_t) CPPUTEST_OVERRIDE {
        char* p = (char*) malloc(size ? size : 1);
        memset(p, g_junk, size);
        unsigned long id = next++;
        ids[p] = id;
        if (!quiet) vh::emit("alloc %lu %lu", id, (unsigned long) size);
        return p;
    }
    void free_memory(char* memory, size_t size, const char*, size_t) CPPUTEST_OVERRIDE {
        std::map<char*, unsigned long>::iterator it = ids.find(memory);
        unsigned long id = it == ids.end() ? 0 : it->second;   // 0: not a live buffer of this allocator
        if (!quiet) vh::emit("free %lu %lu", id, (unsigned long) size);
        if (it != ids.end()) { ids.erase(it); free(memory); }
    }
};

int (*g_real_vsnprintf)(char*, size_t, const char*, va_list) = 0;
int recording_vsnprintf(char* str, size_t size, const char* format, va_list args) {
    int r = g_real_vsnprintf(str, size, format, args);
    vh::emit("vsn %lu %d %s", (unsigned long) size, r, size ? vh::hex(str, strlen(str)).c_str() : "-");
    return r;
}

// exact-size heap copy of a C string operand (so that ASan sees reads past the terminator)
struct CStr {
    char* p;
    explicit CStr(const std::string& s) { size_t n = strlen(s.c_str()); p = (char*) malloc(n + 1); memcpy(p, s.c_str(), n + 1); }
    ~CStr() { free(p); }
    operator const char*() const { return p; }
private:
    CStr(const CStr&); void operator=(const CStr&);
};
// exact-size raw byte buffer
struct Raw {
    unsigned char* p; size_t n;
    explicit Raw(const std::string& s) : n(s.size()) { p = (unsigned char*) malloc(n ? n : 1); if (n) memcpy(p, s.data(), n); }
    ~Raw() { free(p); }
private:
    Raw(const Raw&); void operator=(const Raw&);
};

std::string cut(const std::string& s) { return std::string(s.c_str()); }   // C view of an operand
std::string str(const SimpleString& s) { return std::string(s.asCharString()); }
void val(const SimpleString& s) { vh::emit("val %s", vh::hex(str(s)).c_str()); }
void ret_u(size_t v) { if (v == SimpleString::npos) vh::emit("ret npos"); else vh::emit("ret %lu", (unsigned long) v); }
void ret_i(long long v) { vh::emit("ret %lld", v); }
void xref(bool ok, const char* what) { if (!ok) vh::emit("xref %s", what); }
int sgn(long long v) { return v < 0 ? -1 : v > 0 ? 1 : 0; }
size_t pos_of(const std::string& w) { return w == "npos" ? SimpleString::npos : (size_t) vh::to_u64(w); }
unsigned char byte_of(const std::string& w) { std::string b = vh::unhex(w); return b.empty() ? 0 : (unsigned char) b[0]; }

std::string ref_replace(std::string s, const std::string& to, const std::string& with) {
    if (to.empty()) return s;
    size_t pos = 0;
    while ((pos = s.find(to, pos)) != std::string::npos) { s.replace(pos, to.size(), with); pos += with.size(); }
    return s;
}
std::vector<std::string> ref_split(const std::string& a, const std::string& d) {
    std::vector<std::string> out; size_t pos = 0;
    if (d.empty()) { for (size_t i = 0; i < a.size(); i++) out.push_back(a.substr(i, 1)); return out; }
    for (;;) {
        size_t f = a.find(d, pos);
        if (f == std::string::npos || pos >= a.size()) break;
        out.push_back(a.substr(pos, f + d.size() - pos)); pos = f + d.size();
    }
    if (pos < a.size() || a.empty()) out.push_back(a.substr(pos));
    return out;
}
size_t ref_count(const std::string& a, const std::string& b) {
    size_t n = 0;
    for (size_t i = 0; i < a.size(); i++) if (a.compare(i, b.size(), b) == 0) n++;
    return n;
}
std::string ref_lower(std::string s) { for (size_t i = 0; i < s.size(); i++) if (s[i] >= 'A' && s[i] <= 'Z') s[i] = (char) (s[i] + 32); return s; }
std::string fmt(const char* f, ...) { char b[256]; va_list ap; va_start(ap, f); vsnprintf(b, sizeof b, f, ap); va_end(ap); return b; }

SimpleString call_vfmt(const char* format, ...) {
    va_list ap; va_start(ap, format);
    SimpleString r = VStringFromFormat(format, ap);
    va_end(ap);
    return r;
}

typedef std::map<std::string, SimpleString*> Objs;

void run_case(const vh::Case& c) {
    RecordingAllocator rec;
    SimpleString::setStringAllocator(&rec);
    g_real_vsnprintf = PlatformSpecificVSNprintf;
    PlatformSpecificVSNprintf = recording_vsnprintf;
    Objs o;
    for (size_t i = 0; i < c.ops.size(); i++) {
        const vh::Words& w = c.ops[i];
        const std::string& op = w[0];
        size_t n = w.size();
        #define HAS(k) (n > (k) && o.count(w[k]))
        #define OBJ(k) (*o[w[k]])
        #define FRESH(k) (n > (k) && !o.count(w[k]))
        #define ECHO() vh::emit_op(c.raw[i])
        // ---------------------------------------------------------------- settings / lifetime
        if (op == "junk" && n == 2) { ECHO(); g_junk = byte_of(w[1]); }
        else if (op == "new" && n == 3 && FRESH(1)) { ECHO(); CStr a(vh::unhex(w[2])); o[w[1]] = new SimpleString(a); val(OBJ(1)); }
        else if (op == "newnull" && n == 2 && FRESH(1)) { ECHO(); o[w[1]] = new SimpleString((const char*) 0); val(OBJ(1)); }
        else if (op == "rep" && n == 4 && FRESH(1)) {
            ECHO(); CStr a(vh::unhex(w[2])); size_t k = (size_t) vh::to_u64(w[3]);
            o[w[1]] = new SimpleString(a, k); val(OBJ(1));
            std::string r; for (size_t j = 0; j < k; j++) r += cut(vh::unhex(w[2]));
            xref(r == str(OBJ(1)), "repeat");
        }
        else if (op == "copy" && n == 3 && FRESH(1) && HAS(2)) { ECHO(); o[w[1]] = new SimpleString(OBJ(2)); val(OBJ(1)); }
        else if (op == "assign" && n == 3 && HAS(1) && HAS(2)) { ECHO(); OBJ(1) = OBJ(2); val(OBJ(1)); }
        else if (op == "plus" && n == 4 && FRESH(1) && HAS(2) && HAS(3)) {
            ECHO(); std::string r = str(OBJ(2)) + str(OBJ(3));
            o[w[1]] = new SimpleString(OBJ(2) + OBJ(3)); val(OBJ(1)); xref(r == str(OBJ(1)), "concat");
        }
        else if (op == "pluseq" && n == 3 && HAS(1) && HAS(2)) {
            ECHO(); std::string r = str(OBJ(1)) + str(OBJ(2)); OBJ(1) += OBJ(2); val(OBJ(1)); xref(r == str(OBJ(1)), "append");
        }
        else if (op == "pluseqc" && n == 3 && HAS(1)) {
            ECHO(); CStr a(vh::unhex(w[2])); std::string r = str(OBJ(1)) + std::string(a); OBJ(1) += a; val(OBJ(1)); xref(r == str(OBJ(1)), "append");
        }
        else if (op == "del" && n == 2 && HAS(1)) { ECHO(); delete o[w[1]]; o.erase(w[1]); }
        else if (op == "delall" && n == 1) { ECHO(); for (Objs::iterator it = o.begin(); it != o.end(); ++it) delete it->second; o.clear(); }
        // ---------------------------------------------------------------- queries
        else if (op == "eq" && n == 3 && HAS(1) && HAS(2)) { ECHO(); bool r = OBJ(1) == OBJ(2); ret_u(r); xref(r == (str(OBJ(1)) == str(OBJ(2))), "=="); }
        else if (op == "ne" && n == 3 && HAS(1) && HAS(2)) { ECHO(); bool r = OBJ(1) != OBJ(2); ret_u(r); xref(r == (str(OBJ(1)) != str(OBJ(2))), "!="); }
        else if (op == "eqnc" && n == 3 && HAS(1) && HAS(2)) {
            ECHO(); bool r = OBJ(1).equalsNoCase(OBJ(2)); ret_u(r); xref(r == (strcasecmp(OBJ(1).asCharString(), OBJ(2).asCharString()) == 0), "strcasecmp");
        }
        else if (op == "contains" && n == 3 && HAS(1) && HAS(2)) {
            ECHO(); bool r = OBJ(1).contains(OBJ(2)); ret_u(r); xref(r == (str(OBJ(1)).find(str(OBJ(2))) != std::string::npos), "find");
        }
        else if (op == "containsnc" && n == 3 && HAS(1) && HAS(2)) {
            ECHO(); bool r = OBJ(1).containsNoCase(OBJ(2)); ret_u(r);
            xref(r == (ref_lower(str(OBJ(1))).find(ref_lower(str(OBJ(2)))) != std::string::npos), "find-nocase");
        }
        else if (op == "starts" && n == 3 && HAS(1) && HAS(2)) {
            ECHO(); bool r = OBJ(1).startsWith(OBJ(2)); ret_u(r); std::string a = str(OBJ(1)), b = str(OBJ(2));
            xref(r == (a.size() >= b.size() && a.compare(0, b.size(), b) == 0), "prefix");
        }
        else if (op == "ends" && n == 3 && HAS(1) && HAS(2)) {
            ECHO(); bool r = OBJ(1).endsWith(OBJ(2)); ret_u(r); std::string a = str(OBJ(1)), b = str(OBJ(2));
            xref(r == (a.size() >= b.size() && a.compare(a.size() - b.size(), b.size(), b) == 0), "suffix");
        }
        else if (op == "count" && n == 3 && HAS(1) && HAS(2)) { ECHO(); size_t r = OBJ(1).count(OBJ(2)); ret_u(r); xref(r == ref_count(str(OBJ(1)), str(OBJ(2))), "count"); }
        else if (op == "find" && n == 3 && HAS(1)) {
            ECHO(); char ch = (char) byte_of(w[2]); size_t r = OBJ(1).find(ch); ret_u(r);
            xref(r == (ch == 0 ? std::string::npos : str(OBJ(1)).find(ch)), "find-char");
        }
        else if (op == "findfrom" && n == 4 && HAS(1)) {
            ECHO(); char ch = (char) byte_of(w[3]); size_t p = pos_of(w[2]); size_t r = OBJ(1).findFrom(p, ch); ret_u(r);
            xref(r == (ch == 0 ? std::string::npos : str(OBJ(1)).find(ch, p)), "find-char-from");
        }
        else if (op == "at" && n == 3 && HAS(1) && pos_of(w[2]) <= OBJ(1).size()) {      // contract: pos <= size()
            ECHO(); char r = OBJ(1).at(pos_of(w[2])); vh::emit("ret %s", vh::hex(&r, 1).c_str());
        }
        else if (op == "size" && n == 2 && HAS(1)) { ECHO(); ret_u(OBJ(1).size()); xref(OBJ(1).size() == strlen(OBJ(1).asCharString()), "strlen"); }
        else if (op == "isempty" && n == 2 && HAS(1)) { ECHO(); ret_u(OBJ(1).isEmpty()); }
        else if (op == "cstr" && n == 2 && HAS(1)) { ECHO(); val(OBJ(1)); }
        // ---------------------------------------------------------------- derived strings
        else if (op == "substr" && n == 5 && FRESH(1) && HAS(2)) {
            ECHO(); size_t p = pos_of(w[3]), k = pos_of(w[4]); std::string a = str(OBJ(2));
            o[w[1]] = new SimpleString(OBJ(2).subString(p, k)); val(OBJ(1));
            xref(str(OBJ(1)) == (p >= a.size() ? std::string() : a.substr(p, k)), "substr");
        }
        else if (op == "substr1" && n == 4 && FRESH(1) && HAS(2)) {
            ECHO(); size_t p = pos_of(w[3]); std::string a = str(OBJ(2));
            o[w[1]] = new SimpleString(OBJ(2).subString(p)); val(OBJ(1));
            xref(str(OBJ(1)) == (p >= a.size() ? std::string() : a.substr(p)), "substr");
        }
        else if (op == "fromtill" && n == 5 && FRESH(1) && HAS(2)) {
            ECHO(); char s = (char) byte_of(w[3]), e = (char) byte_of(w[4]); std::string a = str(OBJ(2)), r;
            o[w[1]] = new SimpleString(OBJ(2).subStringFromTill(s, e)); val(OBJ(1));
            size_t b = s ? a.find(s) : std::string::npos;
            if (b != std::string::npos) { size_t f = e ? a.find(e, b) : std::string::npos; r = f == std::string::npos ? a.substr(b) : a.substr(b, f - b); }
            xref(str(OBJ(1)) == r, "from-till");
        }
        else if (op == "lower" && n == 3 && FRESH(1) && HAS(2)) { ECHO(); o[w[1]] = new SimpleString(OBJ(2).lowerCase()); val(OBJ(1)); xref(str(OBJ(1)) == ref_lower(str(OBJ(2))), "tolower"); }
        else if (op == "printable" && n == 3 && FRESH(1) && HAS(2)) { ECHO(); o[w[1]] = new SimpleString(OBJ(2).printable()); val(OBJ(1)); }
        else if (op == "split" && n == 3 && HAS(1) && HAS(2)) {
            ECHO();
            std::vector<std::string> r = ref_split(str(OBJ(1)), str(OBJ(2)));
            {
                SimpleStringCollection col;
                OBJ(1).split(OBJ(2), col);
                bool same = col.size() == r.size();
                for (size_t k = 0; k < col.size(); k++) {
                    vh::emit("tok %lu %s", (unsigned long) k, vh::hex(str(col[k])).c_str());
                    if (same && str(col[k]) != r[k]) same = false;
                }
                vh::emit("ntok %lu", (unsigned long) col.size());
                vh::emit("oobtok %s", vh::hex(str(col[col.size()])).c_str());
                xref(same, "split");
            }
        }
        // ---------------------------------------------------------------- in-place changes
        else if (op == "replc" && n == 4 && HAS(1)) {
            ECHO(); char a = (char) byte_of(w[2]), b = (char) byte_of(w[3]); std::string r = str(OBJ(1));
            if (a && b) std::replace(r.begin(), r.end(), a, b);
            OBJ(1).replace(a, b); val(OBJ(1)); if (a && b) xref(str(OBJ(1)) == r, "replace-char");
        }
        else if (op == "repl" && n == 4 && HAS(1)) {
            ECHO(); CStr a(vh::unhex(w[2])), b(vh::unhex(w[3])); std::string r = ref_replace(str(OBJ(1)), std::string(a), std::string(b));
            OBJ(1).replace(a, b); val(OBJ(1)); xref(str(OBJ(1)) == r, "replace");
        }
        else if (op == "pad" && n == 4 && HAS(1) && HAS(2)) {
            ECHO(); char ch = (char) byte_of(w[3]); std::string a = str(OBJ(1)), b = str(OBJ(2));
            SimpleString::padStringsToSameLength(OBJ(1), OBJ(2), ch); val(OBJ(1)); val(OBJ(2));
            if (ch && w[1] != w[2]) {
                if (a.size() < b.size()) a.insert(0, b.size() - a.size(), ch); else b.insert(0, a.size() - b.size(), ch);
                xref(str(OBJ(1)) == a && str(OBJ(2)) == b, "pad");
            }
        }
        else if ((op == "copybuf" || op == "copybufnull") && n == 3 && HAS(1)) {
            ECHO(); size_t k = (size_t) vh::to_u64(w[2]);
            if (op == "copybufnull") { OBJ(1).copyToBuffer(0, k); vh::emit("buf null"); }
            else {
                Raw b(std::string(k, (char) 0xEE));
                OBJ(1).copyToBuffer((char*) b.p, k);
                vh::emit("buf %s", vh::hex(b.p, k).c_str());
            }
        }
        // ---------------------------------------------------------------- C-library-like primitives
        else if (op == "strlen" && n == 2) { ECHO(); CStr a(vh::unhex(w[1])); size_t r = SimpleString::StrLen(a); ret_u(r); xref(r == strlen(a), "strlen"); }
        else if (op == "strcmp" && n == 3) {
            ECHO(); CStr a(vh::unhex(w[1])), b(vh::unhex(w[2])); int r = SimpleString::StrCmp(a, b); ret_i(r); xref(sgn(r) == sgn(strcmp(a, b)), "strcmp");
        }
        else if (op == "strncmp" && n == 4) {
            ECHO(); CStr a(vh::unhex(w[1])), b(vh::unhex(w[2])); size_t k = pos_of(w[3]);
            int r = SimpleString::StrNCmp(a, b, k); ret_i(r); xref(sgn(r) == sgn(strncmp(a, b, k)), "strncmp");
        }
        else if (op == "strncpy" && n == 4) {        // strncpy <dst contents | null> <src> <n>; contract: min(n, strlen(src)+1) <= |dst|
            std::string src = cut(vh::unhex(w[2])); size_t k = pos_of(w[3]);
            if (w[1] == "null") { ECHO(); CStr s(src); char* r = SimpleString::StrNCpy(0, s, k); vh::emit("ret %s", r ? "nonnull" : "null"); }
            else {
                std::string d0 = vh::unhex(w[1]);
                if ((k < src.size() + 1 ? k : src.size() + 1) <= d0.size()) {
                    ECHO(); Raw d(d0); CStr s(src);
                    char* r = SimpleString::StrNCpy((char*) d.p, s, k);
                    vh::emit("buf %s", vh::hex(d.p, d.n).c_str());
                    std::string e = d0; for (size_t j = 0; j < k && j <= src.size(); j++) e[j] = j < src.size() ? src[j] : 0;
                    xref(r == (char*) d.p && e == std::string((char*) d.p, d.n), "strncpy-without-padding");
                }
                else vh::emit("> skip");
            }
        }
        else if (op == "strstr" && n == 3) {
            ECHO(); CStr a(vh::unhex(w[1])), b(vh::unhex(w[2])); const char* r = SimpleString::StrStr(a, b);
            if (r) ret_u((size_t) (r - a.p)); else vh::emit("ret null");
            xref(r == strstr(a, b), "strstr");
        }
        else if (op == "memcmp" && n == 4 && vh::to_u64(w[3]) <= vh::unhex(w[1]).size() && vh::to_u64(w[3]) <= vh::unhex(w[2]).size()) {
            ECHO(); Raw a(vh::unhex(w[1])), b(vh::unhex(w[2])); size_t k = (size_t) vh::to_u64(w[3]);
            int r = SimpleString::MemCmp(a.p, b.p, k); ret_i(r); xref(sgn(r) == sgn(memcmp(a.p, b.p, k)), "memcmp");
        }
        else if (op == "atoi" && n == 2) { ECHO(); CStr a(vh::unhex(w[1])); int r = SimpleString::AtoI(a); ret_i(r); xref(r == atoi(a), "atoi"); }
        else if (op == "atou" && n == 2) {
            ECHO(); CStr a(vh::unhex(w[1])); unsigned r = SimpleString::AtoU(a); vh::emit("ret %u", r);
            const char* q = a; while (*q == ' ' || (*q >= 9 && *q <= 13)) q++;
            if (*q != '+' && *q != '-') xref(r == (unsigned) strtoull(q, 0, 10), "strtoull mod 2^32");
        }
        else if (op == "tolower" && n == 2) { ECHO(); char ch = (char) byte_of(w[1]); char r = SimpleString::ToLower(ch); vh::emit("ret %s", vh::hex(&r, 1).c_str()); }
        // ---------------------------------------------------------------- formatted construction
        else if ((op == "fmts" || op == "vfmts") && n == 3 && FRESH(1)) {
            ECHO(); CStr a(vh::unhex(w[2]));
            if (op == "fmts") o[w[1]] = new SimpleString(StringFromFormat("%s", a.p)); else o[w[1]] = new SimpleString(call_vfmt("%s", a.p));
            val(OBJ(1)); xref(str(OBJ(1)) == std::string(a), "%s");
        }
        else if (op == "fmt2" && n == 4 && FRESH(1)) {      // two conversions: "<%s|%d>"
            ECHO(); CStr a(vh::unhex(w[2])); int v = (int) vh::to_i64(w[3]);
            o[w[1]] = new SimpleString(StringFromFormat("<%s|%d>", a.p, v)); val(OBJ(1));
            xref(str(OBJ(1)) == "<" + std::string(a) + "|" + std::to_string(v) + ">", "%s%d");
        }
        else if (op == "sfint" && n == 3 && FRESH(1)) { ECHO(); int v = (int) vh::to_i64(w[2]); o[w[1]] = new SimpleString(StringFrom(v)); val(OBJ(1)); xref(str(OBJ(1)) == std::to_string(v), "to_string"); }
        else if (op == "sflong" && n == 3 && FRESH(1)) { ECHO(); long v = (long) vh::to_i64(w[2]); o[w[1]] = new SimpleString(StringFrom(v)); val(OBJ(1)); xref(str(OBJ(1)) == std::to_string(v), "to_string"); }
        else if (op == "sfll" && n == 3 && FRESH(1)) { ECHO(); long long v = vh::to_i64(w[2]); o[w[1]] = new SimpleString(StringFrom(v)); val(OBJ(1)); xref(str(OBJ(1)) == std::to_string(v), "to_string"); }
        else if (op == "sfuint" && n == 3 && FRESH(1)) { ECHO(); unsigned v = (unsigned) vh::to_u64(w[2]); o[w[1]] = new SimpleString(StringFrom(v)); val(OBJ(1)); xref(str(OBJ(1)) == std::to_string(v), "to_string"); }
        else if (op == "sfulong" && n == 3 && FRESH(1)) { ECHO(); unsigned long v = (unsigned long) vh::to_u64(w[2]); o[w[1]] = new SimpleString(StringFrom(v)); val(OBJ(1)); xref(str(OBJ(1)) == std::to_string(v), "to_string"); }
        else if (op == "sfull" && n == 3 && FRESH(1)) { ECHO(); unsigned long long v = vh::to_u64(w[2]); o[w[1]] = new SimpleString(StringFrom(v)); val(OBJ(1)); xref(str(OBJ(1)) == std::to_string(v), "to_string"); }
        else if (op == "sfbool" && n == 3 && FRESH(1)) { ECHO(); o[w[1]] = new SimpleString(StringFrom(w[2] != "0")); val(OBJ(1)); }
        else if (op == "sfchar" && n == 3 && FRESH(1)) { ECHO(); o[w[1]] = new SimpleString(StringFrom((char) byte_of(w[2]))); val(OBJ(1)); }
        else if (op == "sfcstr" && n == 3 && FRESH(1)) { ECHO(); CStr a(vh::unhex(w[2])); o[w[1]] = new SimpleString(StringFrom(a.p)); val(OBJ(1)); }
        else if (op == "sfornull" && n == 3 && FRESH(1)) {
            ECHO(); if (w[2] == "null") o[w[1]] = new SimpleString(StringFromOrNull(0)); else { CStr a(vh::unhex(w[2])); o[w[1]] = new SimpleString(StringFromOrNull(a)); } val(OBJ(1));
        }
        else if (op == "psfornull" && n == 3 && FRESH(1)) {
            ECHO(); if (w[2] == "null") o[w[1]] = new SimpleString(PrintableStringFromOrNull(0)); else { CStr a(vh::unhex(w[2])); o[w[1]] = new SimpleString(PrintableStringFromOrNull(a)); } val(OBJ(1));
        }
        else if (op == "sfss" && n == 3 && FRESH(1) && HAS(2)) { ECHO(); o[w[1]] = new SimpleString(StringFrom(OBJ(2))); val(OBJ(1)); }
        else if (op == "sfstd" && n == 3 && FRESH(1)) { ECHO(); std::string a = cut(vh::unhex(w[2])); o[w[1]] = new SimpleString(StringFrom(a)); val(OBJ(1)); }
        else if (op == "sfnullptr" && n == 2 && FRESH(1)) { ECHO(); o[w[1]] = new SimpleString(StringFrom(nullptr)); val(OBJ(1)); }
        else if (op == "sfptr" && n == 3 && FRESH(1)) {
            ECHO(); unsigned long long v = vh::to_u64(w[2]); o[w[1]] = new SimpleString(StringFrom((const void*) v)); val(OBJ(1)); xref(str(OBJ(1)) == fmt("0x%llx", v), "0x%llx");
        }
        else if (op == "sffptr" && n == 3 && FRESH(1)) {
            ECHO(); unsigned long long v = vh::to_u64(w[2]); o[w[1]] = new SimpleString(StringFrom((void (*)()) v)); val(OBJ(1)); xref(str(OBJ(1)) == fmt("0x%llx", v), "0x%llx");
        }
        else if (op == "sfdouble" && n == 4 && FRESH(1)) {     // sfdouble L <bits as u64> <precision>
            ECHO(); unsigned long long bits = vh::to_u64(w[2]); double d; memcpy(&d, &bits, 8); int prec = (int) vh::to_i64(w[3]);
            o[w[1]] = new SimpleString(StringFrom(d, prec)); val(OBJ(1));
        }
        else if (op == "hexint" && n == 3 && FRESH(1)) { ECHO(); int v = (int) vh::to_i64(w[2]); o[w[1]] = new SimpleString(HexStringFrom(v)); val(OBJ(1)); xref(str(OBJ(1)) == fmt("%x", (unsigned) v), "%x"); }
        else if (op == "hexuint" && n == 3 && FRESH(1)) { ECHO(); unsigned v = (unsigned) vh::to_u64(w[2]); o[w[1]] = new SimpleString(HexStringFrom(v)); val(OBJ(1)); xref(str(OBJ(1)) == fmt("%x", v), "%x"); }
        else if (op == "hexlong" && n == 3 && FRESH(1)) { ECHO(); long v = (long) vh::to_i64(w[2]); o[w[1]] = new SimpleString(HexStringFrom(v)); val(OBJ(1)); xref(str(OBJ(1)) == fmt("%lx", (unsigned long) v), "%lx"); }
        else if (op == "hexulong" && n == 3 && FRESH(1)) { ECHO(); unsigned long v = (unsigned long) vh::to_u64(w[2]); o[w[1]] = new SimpleString(HexStringFrom(v)); val(OBJ(1)); xref(str(OBJ(1)) == fmt("%lx", v), "%lx"); }
        else if (op == "hexll" && n == 3 && FRESH(1)) { ECHO(); long long v = vh::to_i64(w[2]); o[w[1]] = new SimpleString(HexStringFrom(v)); val(OBJ(1)); xref(str(OBJ(1)) == fmt("%llx", (unsigned long long) v), "%llx"); }
        else if (op == "hexull" && n == 3 && FRESH(1)) { ECHO(); unsigned long long v = vh::to_u64(w[2]); o[w[1]] = new SimpleString(HexStringFrom(v)); val(OBJ(1)); xref(str(OBJ(1)) == fmt("%llx", v), "%llx"); }
        else if (op == "hexsc" && n == 3 && FRESH(1)) { ECHO(); signed char v = (signed char) vh::to_i64(w[2]); o[w[1]] = new SimpleString(HexStringFrom(v)); val(OBJ(1)); xref(str(OBJ(1)) == fmt("%x", (unsigned) (unsigned char) v), "%x of the byte"); }
        else if (op == "hexptr" && n == 3 && FRESH(1)) { ECHO(); unsigned long long v = vh::to_u64(w[2]); o[w[1]] = new SimpleString(HexStringFrom((const void*) v)); val(OBJ(1)); xref(str(OBJ(1)) == fmt("%llx", v), "%llx"); }
        else if (op == "hexfptr" && n == 3 && FRESH(1)) { ECHO(); unsigned long long v = vh::to_u64(w[2]); o[w[1]] = new SimpleString(HexStringFrom((void (*)()) v)); val(OBJ(1)); xref(str(OBJ(1)) == fmt("%llx", v), "%llx"); }
        else if (op == "brint" && n == 3 && FRESH(1)) { ECHO(); int v = (int) vh::to_i64(w[2]); o[w[1]] = new SimpleString(BracketsFormattedHexStringFrom(v)); val(OBJ(1)); xref(str(OBJ(1)) == fmt("(0x%x)", (unsigned) v), "(0x%x)"); }
        else if (op == "bruint" && n == 3 && FRESH(1)) { ECHO(); unsigned v = (unsigned) vh::to_u64(w[2]); o[w[1]] = new SimpleString(BracketsFormattedHexStringFrom(v)); val(OBJ(1)); xref(str(OBJ(1)) == fmt("(0x%x)", v), "(0x%x)"); }
        else if (op == "brlong" && n == 3 && FRESH(1)) { ECHO(); long v = (long) vh::to_i64(w[2]); o[w[1]] = new SimpleString(BracketsFormattedHexStringFrom(v)); val(OBJ(1)); xref(str(OBJ(1)) == fmt("(0x%lx)", (unsigned long) v), "(0x%lx)"); }
        else if (op == "brulong" && n == 3 && FRESH(1)) { ECHO(); unsigned long v = (unsigned long) vh::to_u64(w[2]); o[w[1]] = new SimpleString(BracketsFormattedHexStringFrom(v)); val(OBJ(1)); xref(str(OBJ(1)) == fmt("(0x%lx)", v), "(0x%lx)"); }
        else if (op == "brll" && n == 3 && FRESH(1)) { ECHO(); long long v = vh::to_i64(w[2]); o[w[1]] = new SimpleString(BracketsFormattedHexStringFrom(v)); val(OBJ(1)); xref(str(OBJ(1)) == fmt("(0x%llx)", (unsigned long long) v), "(0x%llx)"); }
        else if (op == "brull" && n == 3 && FRESH(1)) { ECHO(); unsigned long long v = vh::to_u64(w[2]); o[w[1]] = new SimpleString(BracketsFormattedHexStringFrom(v)); val(OBJ(1)); xref(str(OBJ(1)) == fmt("(0x%llx)", v), "(0x%llx)"); }
        else if (op == "brsc" && n == 3 && FRESH(1)) { ECHO(); signed char v = (signed char) vh::to_i64(w[2]); o[w[1]] = new SimpleString(BracketsFormattedHexStringFrom(v)); val(OBJ(1)); xref(str(OBJ(1)) == fmt("(0x%x)", (unsigned) (unsigned char) v), "(0x%x) of the byte"); }
        else if (op == "brstr" && n == 3 && FRESH(1) && HAS(2)) { ECHO(); o[w[1]] = new SimpleString(BracketsFormattedHexString(OBJ(2))); val(OBJ(1)); xref(str(OBJ(1)) == "(0x" + str(OBJ(2)) + ")", "(0x..)"); }
        else if (op == "ordinal" && n == 3 && FRESH(1)) { ECHO(); o[w[1]] = new SimpleString(StringFromOrdinalNumber((unsigned) vh::to_u64(w[2]))); val(OBJ(1)); }
        else if ((op == "binary" || op == "binaryornull" || op == "binarysize" || op == "binarysizeornull") && n == 3 && FRESH(1)) {
            ECHO(); Raw a(vh::unhex(w[2]));
            if (op == "binary") o[w[1]] = new SimpleString(StringFromBinary(a.p, a.n));
            else if (op == "binaryornull") o[w[1]] = new SimpleString(StringFromBinaryOrNull(a.p, a.n));
            else if (op == "binarysize") o[w[1]] = new SimpleString(StringFromBinaryWithSize(a.p, a.n));
            else o[w[1]] = new SimpleString(StringFromBinaryWithSizeOrNull(a.p, a.n));
            val(OBJ(1));
        }
        else if ((op == "binarynull" || op == "binarysizenull") && n == 3 && FRESH(1)) {
            ECHO(); size_t k = (size_t) vh::to_u64(w[2]);
            if (op == "binarynull") o[w[1]] = new SimpleString(StringFromBinaryOrNull(0, k));
            else o[w[1]] = new SimpleString(StringFromBinaryWithSizeOrNull(0, k));
            val(OBJ(1));
        }
        else if (op == "masked" && n == 5 && FRESH(1) && vh::to_u64(w[4]) >= 1) {     // contract: byteCount >= 1
            ECHO(); o[w[1]] = new SimpleString(StringFromMaskedBits((unsigned long) vh::to_u64(w[2]), (unsigned long) vh::to_u64(w[3]), (size_t) vh::to_u64(w[4]))); val(OBJ(1));
        }
        // ---------------------------------------------------------------- SimpleStringCollection, aliasing
        else if (op == "coll") {       // coll alloc:N set:I:LABEL get:I size ...
            bool ok = true;
            for (size_t k = 1; k < n && ok; k++) {
                if (w[k].compare(0, 4, "set:") == 0) { size_t c = w[k].find(':', 4); ok = c != std::string::npos && o.count(w[k].substr(c + 1)); }
                else ok = w[k].compare(0, 6, "alloc:") == 0 || w[k].compare(0, 4, "get:") == 0 || w[k] == "size";
            }
            if (!ok) vh::emit("> skip");
            else {
                ECHO();
                SimpleStringCollection col;
                for (size_t k = 1; k < n; k++) {
                    if (w[k].compare(0, 6, "alloc:") == 0) col.allocate((size_t) vh::to_u64(w[k].substr(6)));
                    else if (w[k].compare(0, 4, "set:") == 0) {
                        size_t c = w[k].find(':', 4);
                        col[(size_t) vh::to_u64(w[k].substr(4, c - 4))] = *o[w[k].substr(c + 1)];
                    }
                    else if (w[k].compare(0, 4, "get:") == 0) vh::emit("cval %s", vh::hex(str(col[(size_t) vh::to_u64(w[k].substr(4))])).c_str());
                    else vh::emit("csize %lu", (unsigned long) col.size());
                }
            }
        }
        else if (op == "selfassignc" && n == 2 && HAS(1)) { ECHO(); std::string r = str(OBJ(1)); OBJ(1) = OBJ(1).asCharString(); val(OBJ(1)); xref(str(OBJ(1)) == r, "self-assignment through asCharString"); }
        else if (op == "selfrepl" && n == 3 && HAS(1)) {
            ECHO(); CStr b(vh::unhex(w[2])); std::string r = ref_replace(str(OBJ(1)), str(OBJ(1)), std::string(b));
            OBJ(1).replace(OBJ(1).asCharString(), b); val(OBJ(1)); xref(str(OBJ(1)) == r, "replace-own-pattern");
        }
        else if (op == "selfreplw" && n == 3 && HAS(1)) {
            ECHO(); CStr a(vh::unhex(w[2])); std::string r = ref_replace(str(OBJ(1)), std::string(a), str(OBJ(1)));
            OBJ(1).replace(a, OBJ(1).asCharString()); val(OBJ(1)); xref(str(OBJ(1)) == r, "replace-own-replacement");
        }
        else vh::emit("> skip");
    }
    // end-of-case cleanup is not part of the history (the generator ends histories with `delall`)
    rec.quiet = true;
    for (Objs::iterator it = o.begin(); it != o.end(); ++it) delete it->second;
    PlatformSpecificVSNprintf = g_real_vsnprintf;
    SimpleString::setStringAllocator(0);
}

} // namespace

int main() { return vh::run_all(run_case); }
