// C17 correspondence harness: a private TestRegistry (inside a TestTestingFixture that lives for the
// whole case) with a real SetPointerPlugin and up to 10 recording plugins; scripted tests redirect
// 40 global pointer variables through UT_PTR_SET and end by pass / FAIL / FAIL_C / throw.
// Ops: `newset` constructs a further SetPointerPlugin object (the constructor resets the table index);
// `install|enable|disable set` address the most recent one, older ones by id (99, 100, ...).
// `set <ptr> <val>` lines collect the body of the next test, `run <outcome>` runs it.
// Observables: the chain after every install/remove/enable/disable/reset (walked through
// getFirstPlugin()/getNext()), the pre/post order log, number of redirections carried out, verdict,
// and the 40 pointer values after each test.
#include "fixture.h"
#include "CppUTest/TestPlugin.h"
#include "CppUTest/TestRegistry.h"
#include "CppUTest/TestHarness_c.h"

#undef new

namespace {

enum { NPTR = 40, NVAL = 64, NREC = 10 };
char g_init[NPTR];
char g_vals[NVAL];
void* g_ptr[NPTR];

std::vector<std::string>* g_log_pre = 0;
std::vector<std::string>* g_log_post = 0;

struct RecPlugin : public TestPlugin {
    unsigned id;
    RecPlugin(const char* name, unsigned i) : TestPlugin(name), id(i) {}
    void preTestAction(UtestShell&, TestResult&) CPPUTEST_OVERRIDE { g_log_pre->push_back(getName().asCharString()); }
    void postTestAction(UtestShell&, TestResult&) CPPUTEST_OVERRIDE { g_log_post->push_back(getName().asCharString()); }
};

// two objects share the name "p3" (ids 3 and 8) and "p0" (ids 0 and 9): used by the tagged stream only
const char* REC_NAMES[NREC] = { "p0", "p1", "p2", "p3", "p4", "p5", "p6", "p7", "p3", "p0" };
const unsigned SET_ID = 99;
std::vector<SetPointerPlugin*>* g_sets = 0;

struct Script { std::vector<std::pair<unsigned, unsigned> > sets; std::string outcome; };
Script* g_script = 0;
volatile unsigned g_done = 0;

void body() {
    // no object with a destructor in this frame: the body may be left by longjmp
    const Script* s = g_script;
    size_t n = s->sets.size();
    for (size_t i = 0; i < n; i++) {
        UT_PTR_SET(g_ptr[s->sets[i].first], (void*) &g_vals[s->sets[i].second]);
        g_done = g_done + 1;
    }
    const char* o = s->outcome.c_str();
    if (strcmp(o, "fail") == 0) FAIL("scripted failure");
    if (strcmp(o, "failc") == 0) FAIL_TEXT_C("scripted C failure");
    if (strcmp(o, "throw") == 0) throw std::runtime_error("scripted exception");
    if (strcmp(o, "throwint") == 0) throw 42;
}

std::string val_token(void* p) {
    char buf[32];
    char* c = (char*) p;
    if (c >= g_init && c < g_init + NPTR) snprintf(buf, sizeof buf, "i%d", (int) (c - g_init));
    else if (c >= g_vals && c < g_vals + NVAL) snprintf(buf, sizeof buf, "v%d", (int) (c - g_vals));
    else snprintf(buf, sizeof buf, "?");
    return buf;
}

std::string join(const char* tag, const std::vector<std::string>& v) {
    std::string s = tag;
    if (v.empty()) return s + " -";
    for (size_t i = 0; i < v.size(); i++) { s += " "; s += v[i]; }
    return s;
}

void run_case(const vh::Case& c) {
    for (unsigned i = 0; i < NPTR; i++) g_ptr[i] = &g_init[i];
    std::vector<std::string> log_pre, log_post;
    g_log_pre = &log_pre; g_log_post = &log_post;
    TestTestingFixture fixture;
    fixture.setTestFunction(body);
    TestRegistry* reg = fixture.getRegistry();
    // SetPointerPlugin objects: ids SET_ID, SET_ID+1, ...; `newset` constructs a further one (the constructor
    // resets the process-wide table index); `set` in install/enable/disable means the most recent one
    std::vector<SetPointerPlugin*> sets;
    g_sets = &sets;
    sets.push_back(new SetPointerPlugin("SetPointerPlugin"));
    std::vector<RecPlugin*> rec;
    for (unsigned i = 0; i < NREC; i++) rec.push_back(new RecPlugin(REC_NAMES[i], i));

    struct Local {
        static unsigned id_of(TestPlugin* p) {
            for (size_t k = 0; k < g_sets->size(); k++) if (p == (*g_sets)[k]) return SET_ID + (unsigned) k;
            return ((RecPlugin*) p)->id;
        }
        static TestPlugin* by_id(const std::string& w, std::vector<RecPlugin*>& rec, unsigned* id) {
            if (w == "set") { *id = SET_ID + (unsigned) g_sets->size() - 1; return g_sets->back(); }
            *id = (unsigned) vh::to_u64(w);
            if (*id < NREC) return rec[*id];
            if (*id >= SET_ID && *id < SET_ID + g_sets->size()) return (*g_sets)[*id - SET_ID];
            return 0;
        }
        static bool in_chain(TestRegistry* reg, TestPlugin* q) {
            for (TestPlugin* p = reg->getFirstPlugin(); p && p != NullTestPlugin::instance(); p = p->getNext())
                if (p == q) return true;
            return false;
        }
        static void emit_chain(TestRegistry* reg) {
            std::string s = "chain";
            bool any = false; int guard = 0;
            for (TestPlugin* p = reg->getFirstPlugin(); p != NullTestPlugin::instance(); p = p->getNext()) {
                if (!p) { s += " BROKEN"; any = true; break; }
                if (++guard > 64) { s += " CYCLE"; any = true; break; }
                char buf[32]; snprintf(buf, sizeof buf, " %u%c", id_of(p), p->isEnabled() ? '+' : '-');
                s += buf; any = true;
            }
            if (!any) s += " -";
            vh::emit("%s", s.c_str());
        }
    };

    std::vector<std::pair<unsigned, unsigned> > pending;
    for (size_t i = 0; i < c.ops.size(); i++) {
        const vh::Words& w = c.ops[i];
        if (w[0] == "install" && w.size() == 2) {                     // install <rec index | set>
            unsigned id = 0;
            TestPlugin* p = Local::by_id(w[1], rec, &id);
            const char* kind = id >= SET_ID ? "set" : "rec";
            if (!p || Local::in_chain(reg, p)) { vh::emit("> skip"); continue; }     // installing a linked object twice makes a cycle
            vh::emit("> install %u %s %s", id, p->getName().asCharString(), kind);
            reg->installPlugin(p);
            Local::emit_chain(reg);
        }
        else if (w[0] == "remove" && w.size() == 2) {
            if (w[1] == "null") { vh::emit("> skip"); continue; }       // the sentinel's name: outside the quantifier (see report)
            vh::emit("> remove %s", w[1].c_str());
            reg->removePluginByName(w[1].c_str());
            Local::emit_chain(reg);
        }
        else if (w[0] == "reset" && w.size() == 1) {
            vh::emit_op("reset");
            reg->resetPlugins();
            Local::emit_chain(reg);
        }
        else if ((w[0] == "enable" || w[0] == "disable") && w.size() == 2) {
            unsigned id = 0;
            TestPlugin* p = Local::by_id(w[1], rec, &id);
            if (!p) { vh::emit("> skip"); continue; }
            vh::emit("> %s %u", w[0].c_str(), id);
            if (w[0] == "enable") p->enable(); else p->disable();
            Local::emit_chain(reg);
        }
        else if (w[0] == "newset" && w.size() == 1) {                  // construct a fresh SetPointerPlugin (not installed yet)
            if (sets.size() >= 16) { vh::emit("> skip"); continue; }
            vh::emit("> newset %u", SET_ID + (unsigned) sets.size());
            sets.push_back(new SetPointerPlugin("SetPointerPlugin"));
        }
        else if (w[0] == "get" && w.size() == 2) {
            vh::emit("> get %s", w[1].c_str());
            TestPlugin* p = reg->getPluginByName(w[1].c_str());
            if (!p) vh::emit("got none");
            else if (p == NullTestPlugin::instance()) vh::emit("got sentinel");
            else vh::emit("got %u", Local::id_of(p));
        }
        else if (w[0] == "set" && w.size() == 3) {                     // set <ptr index> <value index>: appended to the next test's body
            unsigned l = (unsigned) vh::to_u64(w[1]), v = (unsigned) vh::to_u64(w[2]);
            if (l >= NPTR || v >= NVAL) { vh::emit("> skip"); continue; }
            vh::emit("> set %u %u", l, v);
            pending.push_back(std::make_pair(l, v));
        }
        else if (w[0] == "run" && w.size() == 2) {                     // run <outcome>: one test with the collected body
            Script sc; sc.outcome = w[1];
            if (sc.outcome != "pass" && sc.outcome != "fail" && sc.outcome != "failc" && sc.outcome != "throw" && sc.outcome != "throwint") {
                vh::emit("> skip"); continue;
            }
            sc.sets = pending; pending.clear();
            std::string canon = "run " + sc.outcome;
            vh::emit_op(canon);
            g_script = &sc; g_done = 0;
            log_pre.clear(); log_post.clear();
            fixture.flushOutputAndResetResult();
            fixture.runAllTests();
            size_t failures = fixture.getFailureCount();
            std::string out = fixture.getOutput().asCharString();
            vh::emit("%s", join("pre", log_pre).c_str());
            vh::emit("%s", join("post", log_post).c_str());
            vh::emit("done %u", (unsigned) g_done);
            bool overflow = out.find("Maximum number of function pointers installed!") != std::string::npos;
            vh::emit("result %s", overflow ? "overflow" : failures ? "fail" : "pass");
            if (failures > 1) vh::emit("failures %lu", (unsigned long) failures);
            std::string m = "mem";
            for (unsigned k = 0; k < NPTR; k++) { m += " "; m += val_token(g_ptr[k]); }
            vh::emit("%s", m.c_str());
        }
        else vh::emit("> skip");
    }
    // end of case: leave the process-wide table clean, detach the plugins before they go out of scope
    reg->resetPlugins();
}

} // namespace

int main() { return vh::run_all(run_case); }
