// C17 correspondence harness: a private TestRegistry (inside a TestTestingFixture that lives for the
// whole case) with a real SetPointerPlugin and up to 10 recording plugins; scripted tests redirect
// 52 global pointer variables of four types (void*, function pointer, double*, int**) through UT_PTR_SET and
// end by pass / FAIL / FAIL_C / throw - from the body, and (outcome `<setup>/<body>/<teardown>`) from setup() and
// teardown() as well, with UtestShell::setRethrowExceptions(false); `run <outcome> sep|ign|runign` runs the same body in a separate
// process / as an IgnoredUtestShell / as a run-ignored one; plugins f0, f1 (ids 20, 21) report a failure from
// their pre action.  `test <outcome> <body change> <post-action change>` queues a test, `runall` runs the queue through
// ONE TestRegistry::runAllTests; a queued test may install / remove a plugin on the running registry from its body
// and from the post action of a designated recording plugin.
// Ops: `newset` constructs a further SetPointerPlugin object (the constructor resets the table index);
// `install|enable|disable set` address the most recent one, older ones by id (99, 100, ...).
// `set <ptr> <val>` lines collect the body of the next test, `run <outcome>` runs it.
// Observables: the chain after every install/remove/enable/disable/reset (walked through
// getFirstPlugin()/getNext()), the pre/post order log, number of redirections carried out, verdict,
// and the 40 pointer values after each test.
#include "fixture.h"
#include "CppUTest/TestPlugin.h"
#include "CppUTest/TestRegistry.h"
#include "CppUTest/TestHarness_c.h"
#include "CppUTest/CommandLineTestRunner.h"
#include <sys/mman.h>

#undef new

namespace {

// pointer variables of four types, all redirected through the same macro (its `(void**)&(a)` cast):
//   0..39 void*   40..43 void (*)()   44..47 double*   48..51 int**
enum { NVOID = 40, NTYPED = 4, NPTR = NVOID + 3 * NTYPED, NVAL = 64, NTVAL = 8, NREC = 10, NFAIL = 2 };
char g_init[NVOID];
char g_vals[NVAL];
void* g_ptr[NVOID];
volatile int g_fn_sink = 0;
template <int N> void fn_init() { g_fn_sink = N; }
template <int N> void fn_val() { g_fn_sink = 100 + N; }
typedef void (*Fn)();
Fn const FN_INIT[NTYPED] = { fn_init<0>, fn_init<1>, fn_init<2>, fn_init<3> };
Fn const FN_VAL[NTVAL] = { fn_val<0>, fn_val<1>, fn_val<2>, fn_val<3>, fn_val<4>, fn_val<5>, fn_val<6>, fn_val<7> };
Fn g_fp[NTYPED];
double g_dinit[NTYPED], g_dvals[NTVAL];
double* g_dp[NTYPED];
int* g_pinit[NTYPED]; int* g_pvals[NTVAL];
int** g_pp[NTYPED];

// Order log and redirection counter live in memory shared with the child of a separate-process run.
struct Shared { volatile unsigned done; volatile unsigned npre, npost; char pre[32][24]; char post[32][24]; };
Shared* g_sh = 0;

// A batch: several scripted tests run by ONE TestRegistry::runAllTests.  A test may change the chain of the
// running registry once from its body and once from the post action of a designated recording plugin.
struct Script {
    std::vector<std::pair<unsigned, unsigned> > sets; std::string outcome;   // outcome of the body
    std::vector<std::pair<unsigned, unsigned> > ssets, tsets;                // redirections made in setup() / teardown() (`sset` / `tset`)
    std::string setup, teardown;                                             // how setup() / teardown() end ("pass" = normally)
    int bm_kind; unsigned bm_idx; std::string bm_name;                 // 0 none, 1 install rec[bm_idx], 2 remove bm_name
    unsigned pm_actor; int pm_kind; unsigned pm_idx; std::string pm_name;
    Script() : bm_kind(0), bm_idx(0), pm_actor(0), pm_kind(0), pm_idx(0) {}
};
enum { MAXBATCH = 12, MAXBLOG = 1024 };
struct BLogEntry { unsigned char test, post; char name[22]; };
bool g_batch_active = false;
UtestShell* g_bshell[MAXBATCH]; const Script* g_bscript[MAXBATCH]; unsigned g_bn = 0;
BLogEntry g_blog[MAXBLOG]; unsigned g_nblog = 0; unsigned g_bdone[MAXBATCH]; unsigned g_bskipped = 0;
TestRegistry* g_reg = 0;
struct RecPlugin;
std::vector<RecPlugin*>* g_rec = 0;
unsigned batch_index(UtestShell* t) { for (unsigned i = 0; i < g_bn; i++) if (g_bshell[i] == t) return i; return g_bn ? g_bn - 1 : 0; }
bool linked(TestRegistry* reg, TestPlugin* q) {
    int guard = 0;
    for (TestPlugin* p = reg->getFirstPlugin(); p && p != NullTestPlugin::instance() && ++guard < 100; p = p->getNext()) if (p == q) return true;
    return false;
}
void change_chain(int kind, unsigned idx, const char* name);

struct RecPlugin : public TestPlugin {
    unsigned id;
    RecPlugin(const char* name, unsigned i) : TestPlugin(name), id(i) {}
    void blog(UtestShell& test, bool post) {
        if (g_nblog < MAXBLOG) { BLogEntry& e = g_blog[g_nblog++]; e.test = (unsigned char) batch_index(&test); e.post = post; strncpy(e.name, getName().asCharString(), 21); e.name[21] = 0; }
    }
    void preTestAction(UtestShell& test, TestResult&) CPPUTEST_OVERRIDE {
        if (g_batch_active) { blog(test, false); return; }
        if (g_sh->npre < 32) { strncpy(g_sh->pre[g_sh->npre], getName().asCharString(), 23); g_sh->npre = g_sh->npre + 1; }
    }
    void postTestAction(UtestShell& test, TestResult&) CPPUTEST_OVERRIDE {
        if (g_batch_active) {
            blog(test, true);
            const Script* sc = g_bscript[batch_index(&test)];
            if (sc && sc->pm_kind && sc->pm_actor == id) change_chain(sc->pm_kind, sc->pm_idx, sc->pm_name.c_str());
            return;
        }
        if (g_sh->npost < 32) { strncpy(g_sh->post[g_sh->npost], getName().asCharString(), 23); g_sh->npost = g_sh->npost + 1; }
    }
};
void change_chain(int kind, unsigned idx, const char* name) {
    if (kind == 1) {
        if (idx < g_rec->size() && !linked(g_reg, (*g_rec)[idx])) g_reg->installPlugin((*g_rec)[idx]);
        else g_bskipped++;                      // a linked object must not be installed again (cycle)
    }
    else if (kind == 2) g_reg->removePluginByName(name);
}

// the command-line runner with its console output kept away from the harness' stdout: `cli <n>` runs the queued tests
// through CommandLineTestRunner::runAllTestsMain (which constructs, installs and afterwards removes by name its OWN
// SetPointerPlugin) with the arguments `-e -r<n>`
struct QuietRunner : public CommandLineTestRunner {
    QuietRunner(int ac, const char* const* av, TestRegistry* r) : CommandLineTestRunner(ac, av, r) {}
    TestOutput* createConsoleOutput() CPPUTEST_OVERRIDE { return new StringBufferTestOutput; }
};

// a plugin that reports a failure from its pre action, the non-terminating way (result.addFailure)
struct FailPrePlugin : public RecPlugin {
    FailPrePlugin(const char* name, unsigned i) : RecPlugin(name, i) {}
    void preTestAction(UtestShell& test, TestResult& result) CPPUTEST_OVERRIDE {
        RecPlugin::preTestAction(test, result);
        result.addFailure(TestFailure(&test, "pre action failed"));
    }
};
const unsigned FAIL_ID = 20;       // ids 20, 21, names f0, f1

// two objects share the name "p3" (ids 3 and 8) and "p0" (ids 0 and 9): used by the tagged stream only
const char* REC_NAMES[NREC] = { "p0", "p1", "p2", "p3", "p4", "p5", "p6", "p7", "p3", "p0" };
const unsigned SET_ID = 99;
std::vector<SetPointerPlugin*>* g_sets = 0;
std::vector<RecPlugin*>* g_failing = 0;

Script* g_script = 0;
volatile unsigned g_done = 0;

void end_phase(const char* o) {
    if (strcmp(o, "fail") == 0) FAIL("scripted failure");
    if (strcmp(o, "failc") == 0) FAIL_TEXT_C("scripted C failure");
    if (strcmp(o, "throw") == 0) throw std::runtime_error("scripted exception");
    if (strcmp(o, "throwint") == 0) throw 42;
}
// "<body>" or "<setup>/<body>/<teardown>", each of pass|fail|failc|throw|throwint
bool valid_end(const std::string& o) { return o == "pass" || o == "fail" || o == "failc" || o == "throw" || o == "throwint"; }
bool parse_outcome(const std::string& w, Script& sc) {
    size_t a = w.find('/');
    if (a == std::string::npos) { sc.setup = "pass"; sc.outcome = w; sc.teardown = "pass"; }
    else {
        size_t b = w.find('/', a + 1);
        if (b == std::string::npos) return false;
        sc.setup = w.substr(0, a); sc.outcome = w.substr(a + 1, b - a - 1); sc.teardown = w.substr(b + 1);
    }
    return valid_end(sc.setup) && valid_end(sc.outcome) && valid_end(sc.teardown);
}
std::string canon_outcome(const Script& sc) { return sc.setup + "/" + sc.outcome + "/" + sc.teardown; }

void run_script(const Script* s, volatile unsigned* done_counter);
void body() { run_script(g_script, g_batch_active ? &g_bdone[g_bn ? g_bn - 1 : 0] : &g_sh->done); }
struct ScriptFn : public ExecFunction {
    const Script* s; unsigned k;
    ScriptFn(const Script* sc, unsigned i) : s(sc), k(i) {}
    void exec() CPPUTEST_OVERRIDE { run_script(s, &g_bdone[k]); }
};

void do_sets(const std::vector<std::pair<unsigned, unsigned> >& sets, volatile unsigned* done_counter) {
    // no object with a destructor alive at the point where the phase may be left by longjmp
    size_t n = sets.size();
    for (size_t i = 0; i < n; i++) {
        unsigned l = sets[i].first, v = sets[i].second;
        if (l < NVOID) UT_PTR_SET(g_ptr[l], (void*) &g_vals[v]);
        else if (l < NVOID + NTYPED) UT_PTR_SET(g_fp[l - NVOID], FN_VAL[v]);
        else if (l < NVOID + 2 * NTYPED) UT_PTR_SET(g_dp[l - NVOID - NTYPED], &g_dvals[v]);
        else UT_PTR_SET(g_pp[l - NVOID - 2 * NTYPED], &g_pvals[v]);
        *done_counter = *done_counter + 1;
    }
}

void run_script(const Script* s, volatile unsigned* done_counter) {
    do_sets(s->sets, done_counter);
    // the change of the running registry's chain: after the redirections, before the test ends
    if (s->bm_kind) change_chain(s->bm_kind, s->bm_idx, s->bm_name.c_str());
    end_phase(s->outcome.c_str());
}

// setup() and teardown() of every scripted test: they only end the way the script says
const Script* current_script() {
    if (g_batch_active) return g_bscript[batch_index(UtestShell::getCurrent())];
    return g_script;
}
// … after the redirections the script gives them (`sset` / `tset`; single tests only)
volatile unsigned* phase_counter() { return g_batch_active ? &g_bdone[batch_index(UtestShell::getCurrent())] : &g_sh->done; }
void setup_fn() { const Script* s = current_script(); if (s) { do_sets(s->ssets, phase_counter()); end_phase(s->setup.c_str()); } }
void teardown_fn() { const Script* s = current_script(); if (s) { do_sets(s->tsets, phase_counter()); end_phase(s->teardown.c_str()); } }

// an ignored test with the same body
class BodyUtest : public Utest { public:
    void setup() CPPUTEST_OVERRIDE { setup_fn(); }
    void testBody() CPPUTEST_OVERRIDE { body(); }
    void teardown() CPPUTEST_OVERRIDE { teardown_fn(); } };
class IgnoredBodyShell : public IgnoredUtestShell { public: Utest* createTest() CPPUTEST_OVERRIDE { return new BodyUtest; } };

std::string val_token(unsigned l) {
    char buf[32];
    snprintf(buf, sizeof buf, "?");
    if (l < NVOID) {
        char* c = (char*) g_ptr[l];
        if (c >= g_init && c < g_init + NVOID) snprintf(buf, sizeof buf, "i%d", (int) (c - g_init));
        else if (c >= g_vals && c < g_vals + NVAL) snprintf(buf, sizeof buf, "v%d", (int) (c - g_vals));
    }
    else if (l < NVOID + NTYPED) {
        Fn f = g_fp[l - NVOID];
        for (int k = 0; k < NTYPED; k++) if (f == FN_INIT[k]) snprintf(buf, sizeof buf, "i%d", NVOID + k);
        for (int k = 0; k < NTVAL; k++) if (f == FN_VAL[k]) snprintf(buf, sizeof buf, "v%d", k);
    }
    else if (l < NVOID + 2 * NTYPED) {
        double* d = g_dp[l - NVOID - NTYPED];
        if (d >= g_dinit && d < g_dinit + NTYPED) snprintf(buf, sizeof buf, "i%d", NVOID + NTYPED + (int) (d - g_dinit));
        else if (d >= g_dvals && d < g_dvals + NTVAL) snprintf(buf, sizeof buf, "v%d", (int) (d - g_dvals));
    }
    else {
        int** q = g_pp[l - NVOID - 2 * NTYPED];
        if (q >= g_pinit && q < g_pinit + NTYPED) snprintf(buf, sizeof buf, "i%d", NVOID + 2 * NTYPED + (int) (q - g_pinit));
        else if (q >= g_pvals && q < g_pvals + NTVAL) snprintf(buf, sizeof buf, "v%d", (int) (q - g_pvals));
    }
    return buf;
}

std::string join_log(const char* tag, char (*names)[24], unsigned n) {
    std::string s = tag;
    if (n == 0) return s + " -";
    for (unsigned i = 0; i < n; i++) { s += " "; s += names[i]; }
    return s;
}

void run_case(const vh::Case& c) {
    for (unsigned i = 0; i < NVOID; i++) g_ptr[i] = &g_init[i];
    for (unsigned i = 0; i < NTYPED; i++) { g_fp[i] = FN_INIT[i]; g_dp[i] = &g_dinit[i]; g_pp[i] = &g_pinit[i]; }
    g_sh = (Shared*) mmap(0, sizeof(Shared), PROT_READ | PROT_WRITE, MAP_SHARED | MAP_ANONYMOUS, -1, 0);
    if (g_sh == (Shared*) MAP_FAILED) { vh::emit("harness-error mmap"); return; }
    memset(g_sh, 0, sizeof(Shared));
    TestTestingFixture fixture;
    fixture.setTestFunction(body);
    fixture.setSetup(setup_fn); fixture.setTeardown(teardown_fn);
    UtestShell::setRethrowExceptions(false);        // as the library and `-e` have it: exceptions become test failures
    TestRegistry* reg = fixture.getRegistry();
    g_reg = reg;
    // SetPointerPlugin objects: ids SET_ID, SET_ID+1, ...; `newset` constructs a further one (the constructor
    // resets the process-wide table index); `set` in install/enable/disable means the most recent one
    std::vector<SetPointerPlugin*> sets;
    g_sets = &sets;
    sets.push_back(new SetPointerPlugin("SetPointerPlugin"));
    std::vector<RecPlugin*> rec;
    for (unsigned i = 0; i < NREC; i++) rec.push_back(new RecPlugin(REC_NAMES[i], i));
    g_rec = &rec;
    std::vector<Script> batch;
    std::vector<RecPlugin*> failing;
    failing.push_back(new FailPrePlugin("f0", FAIL_ID)); failing.push_back(new FailPrePlugin("f1", FAIL_ID + 1));
    g_failing = &failing;
    // shells for the other ways of running the same body
    ExecFunctionTestShell sepShell(setup_fn, teardown_fn); ExecFunctionWithoutParameters sepFn(body); sepShell.testFunction_ = &sepFn;
    sepShell.setRunInSeperateProcess();
    IgnoredBodyShell ignShell, runIgnShell; runIgnShell.setRunIgnored();

    struct Local {
        static unsigned id_of(TestPlugin* p) {
            for (size_t k = 0; k < g_sets->size(); k++) if (p == (*g_sets)[k]) return SET_ID + (unsigned) k;
            return ((RecPlugin*) p)->id;
        }
        static TestPlugin* by_id(const std::string& w, std::vector<RecPlugin*>& rec, unsigned* id) {
            if (w == "set") { *id = SET_ID + (unsigned) g_sets->size() - 1; return g_sets->back(); }
            *id = (unsigned) vh::to_u64(w);
            if (*id < NREC) return rec[*id];
            if (*id >= FAIL_ID && *id < FAIL_ID + NFAIL) return (*g_failing)[*id - FAIL_ID];
            if (*id >= SET_ID && *id < SET_ID + g_sets->size()) return (*g_sets)[*id - SET_ID];
            return 0;
        }
        static bool in_chain(TestRegistry* reg, TestPlugin* q) {
            for (TestPlugin* p = reg->getFirstPlugin(); p && p != NullTestPlugin::instance(); p = p->getNext())
                if (p == q) return true;
            return false;
        }
        static void emit_chain(TestRegistry* reg) {
            std::string s = "chain";
            bool any = false; int guard = 0;
            for (TestPlugin* p = reg->getFirstPlugin(); p != NullTestPlugin::instance(); p = p->getNext()) {
                if (!p) { s += " BROKEN"; any = true; break; }
                if (++guard > 64) { s += " CYCLE"; any = true; break; }
                char buf[32]; snprintf(buf, sizeof buf, " %u%c", id_of(p), p->isEnabled() ? '+' : '-');
                s += buf; any = true;
            }
            if (!any) s += " -";
            vh::emit("%s", s.c_str());
            // the registry's own view: countPlugins() and getFirstPlugin()
            TestPlugin* f = reg->getFirstPlugin();
            if (f == NullTestPlugin::instance()) vh::emit("plugins %d first sentinel", reg->countPlugins());
            else if (f) vh::emit("plugins %d first %u", reg->countPlugins(), id_of(f));
        }
    };

    std::vector<std::pair<unsigned, unsigned> > pending, pendingS, pendingT;
    for (size_t i = 0; i < c.ops.size(); i++) {
        const vh::Words& w = c.ops[i];
        if (w[0] == "install" && w.size() == 2) {                     // install <rec index | set>
            unsigned id = 0;
            TestPlugin* p = Local::by_id(w[1], rec, &id);
            const char* kind = id >= SET_ID ? "set" : id >= FAIL_ID ? "failpre" : "rec";
            if (!p || Local::in_chain(reg, p)) { vh::emit("> skip"); continue; }     // installing a linked object twice makes a cycle
            vh::emit("> install %u %s %s", id, p->getName().asCharString(), kind);
            reg->installPlugin(p);
            Local::emit_chain(reg);
        }
        else if (w[0] == "remove" && w.size() == 2) {
            if (w[1] == "null") { vh::emit("> skip"); continue; }       // the sentinel's name: outside the quantifier (see report)
            vh::emit("> remove %s", w[1].c_str());
            reg->removePluginByName(w[1].c_str());
            Local::emit_chain(reg);
        }
        else if (w[0] == "reset" && w.size() == 1) {
            vh::emit_op("reset");
            reg->resetPlugins();
            Local::emit_chain(reg);
        }
        else if ((w[0] == "enable" || w[0] == "disable") && w.size() == 2) {
            unsigned id = 0;
            TestPlugin* p = Local::by_id(w[1], rec, &id);
            if (!p) { vh::emit("> skip"); continue; }
            vh::emit("> %s %u", w[0].c_str(), id);
            if (w[0] == "enable") p->enable(); else p->disable();
            Local::emit_chain(reg);
        }
        else if (w[0] == "newset" && w.size() == 1) {                  // construct a fresh SetPointerPlugin (not installed yet)
            if (sets.size() >= 16) { vh::emit("> skip"); continue; }
            vh::emit("> newset %u", SET_ID + (unsigned) sets.size());
            sets.push_back(new SetPointerPlugin("SetPointerPlugin"));
        }
        else if (w[0] == "get" && w.size() == 2) {
            vh::emit("> get %s", w[1].c_str());
            TestPlugin* p = reg->getPluginByName(w[1].c_str());
            if (!p) vh::emit("got none");
            else if (p == NullTestPlugin::instance()) vh::emit("got sentinel");
            else vh::emit("got %u", Local::id_of(p));
        }
        else if (w[0] == "set" && w.size() == 3) {                     // set <ptr index> <value index>: appended to the next test's body
            unsigned l = (unsigned) vh::to_u64(w[1]), v = (unsigned) vh::to_u64(w[2]);
            if (l >= NPTR || v >= NVAL) { vh::emit("> skip"); continue; }
            if (l >= NVOID) v = v % NTVAL;
            vh::emit("> set %u %u", l, v);
            pending.push_back(std::make_pair(l, v));
        }
        else if ((w[0] == "sset" || w[0] == "tset") && w.size() == 3) {   // redirection in setup() / teardown() of the next single test
            unsigned l = (unsigned) vh::to_u64(w[1]), v = (unsigned) vh::to_u64(w[2]);
            if (l >= NPTR || v >= NVAL) { vh::emit("> skip"); continue; }
            if (l >= NVOID) v = v % NTVAL;
            vh::emit("> %s %u %u", w[0].c_str(), l, v);
            (w[0] == "sset" ? pendingS : pendingT).push_back(std::make_pair(l, v));
        }
        else if (w[0] == "run" && (w.size() == 2 || w.size() == 3)) {   // run <outcome> [normal|sep|ign|runign]: one test with the collected body
            Script sc;
            std::string kind = w.size() == 3 ? w[2] : "normal";
            if (!parse_outcome(w[1], sc)) { vh::emit("> skip"); continue; }
            if (kind != "normal" && kind != "sep" && kind != "ign" && kind != "runign") { vh::emit("> skip"); continue; }
            sc.sets = pending; pending.clear();
            sc.ssets = pendingS; pendingS.clear(); sc.tsets = pendingT; pendingT.clear();
            vh::emit("> run %s %s", canon_outcome(sc).c_str(), kind.c_str());
            g_script = &sc;
            g_sh->done = 0; g_sh->npre = 0; g_sh->npost = 0;
            size_t failures; std::string out;
            if (kind == "normal") {
                fixture.flushOutputAndResetResult();
                // with rethrow off nothing may come out of the runner; if something does, say so and go on observing
                try { fixture.runAllTests(); } catch (...) { vh::emit("exception-escaped-the-runner"); }
                failures = fixture.getFailureCount();
                out = fixture.getOutput().asCharString();
            }
            else {
                // the shell's own runOneTest with the registry's chain, as TestRegistry::runAllTests calls it
                StringBufferTestOutput o; TestResult res(o);
                UtestShell* shell = kind == "sep" ? (UtestShell*) &sepShell : kind == "ign" ? (UtestShell*) &ignShell : (UtestShell*) &runIgnShell;
                fflush(stdout);
                try { shell->runOneTest(reg->getFirstPlugin(), res); } catch (...) { vh::emit("exception-escaped-the-runner"); }
                failures = res.getFailureCount();
                out = o.getOutput().asCharString();
                if (kind == "ign" && res.getIgnoredCount() != 1) vh::emit("not-counted-as-ignored");
            }
            vh::emit("%s", join_log("pre", g_sh->pre, g_sh->npre).c_str());
            vh::emit("%s", join_log("post", g_sh->post, g_sh->npost).c_str());
            vh::emit("done %u", (unsigned) g_sh->done);
            bool overflow = out.find("Maximum number of function pointers installed!") != std::string::npos;
            vh::emit("result %s", overflow ? "overflow" : failures ? "fail" : "pass");
            std::string m = "mem";
            for (unsigned k = 0; k < NPTR; k++) { m += " "; m += val_token(k); }
            vh::emit("%s", m.c_str());
        }
        else if (w[0] == "test" && w.size() == 4) {      // test <outcome> <-|i<rec>|r<name>> <-|<actor>:i<rec>|<actor>:r<name>>: queued for `runall`
            Script sc;
            bool ok = parse_outcome(w[1], sc);
            std::string bm = "-", pm = "-"; char buf[64];
            if (w[2] != "-") {
                if (w[2][0] == 'i') { sc.bm_kind = 1; sc.bm_idx = (unsigned) vh::to_u64(w[2].substr(1)); ok = ok && sc.bm_idx < NREC - 2;
                    if (ok) { snprintf(buf, sizeof buf, "i:%u:%s", sc.bm_idx, REC_NAMES[sc.bm_idx]); bm = buf; } }
                else if (w[2][0] == 'r' && w[2].size() > 1 && w[2] != "rnull") { sc.bm_kind = 2; sc.bm_name = w[2].substr(1); bm = "r:" + sc.bm_name; }
                else ok = false;
            }
            if (w[3] != "-") {
                size_t colon = w[3].find(':');
                if (colon == std::string::npos || colon + 1 >= w[3].size()) ok = false;
                else {
                    sc.pm_actor = (unsigned) vh::to_u64(w[3].substr(0, colon));
                    std::string rest = w[3].substr(colon + 1);
                    if (rest[0] == 'i') { sc.pm_kind = 1; sc.pm_idx = (unsigned) vh::to_u64(rest.substr(1)); ok = ok && sc.pm_idx < NREC - 2;
                        if (ok) { snprintf(buf, sizeof buf, "%u:i:%u:%s", sc.pm_actor, sc.pm_idx, REC_NAMES[sc.pm_idx]); pm = buf; } }
                    else if (rest[0] == 'r' && rest.size() > 1 && rest != "rnull") { sc.pm_kind = 2; sc.pm_name = rest.substr(1);
                        snprintf(buf, sizeof buf, "%u:r:", sc.pm_actor); pm = buf + sc.pm_name; }
                    else ok = false;
                }
            }
            if (!ok || batch.size() >= MAXBATCH) { vh::emit("> skip"); continue; }
            sc.sets = pending; pending.clear();
            vh::emit("> test %s %s %s", canon_outcome(sc).c_str(), bm.c_str(), pm.c_str());
            batch.push_back(sc);
        }
        else if ((w[0] == "runall" && w.size() == 1) || (w[0] == "cli" && w.size() == 2)) {
            // runall: all queued tests through ONE TestRegistry::runAllTests;  cli <r>: through the command-line runner, r repetitions
            bool cli = w[0] == "cli";
            unsigned reps = cli ? (unsigned) vh::to_u64(w[1]) : 1;
            bool plain = true;
            for (size_t k = 0; k < batch.size(); k++) if (batch[k].bm_kind || batch[k].pm_kind) plain = false;
            if (batch.empty() || (cli && (!plain || reps < 1 || reps > 3))) { vh::emit("> skip"); continue; }
            if (cli) vh::emit("> cli %u", reps); else vh::emit_op("runall");
            unsigned n = (unsigned) batch.size();
            std::vector<ExecFunctionTestShell*> shells; std::vector<ScriptFn*> fns;
            g_bn = n; g_nblog = 0; g_bskipped = 0;
            for (unsigned k = 0; k < n; k++) { g_bscript[k] = &batch[k]; g_bdone[k] = 0; g_bshell[k] = 0; }
            for (unsigned k = 0; k + 1 < n; k++) {
                ExecFunctionTestShell* sh = new ExecFunctionTestShell(setup_fn, teardown_fn); ScriptFn* fn = new ScriptFn(&batch[k], k);
                sh->testFunction_ = fn; shells.push_back(sh); fns.push_back(fn); g_bshell[k] = sh;
            }
            // addTest puts a test in FRONT of the list: add in reverse so that they run in script order;
            // the fixture's own test (body() with g_script) is the last one
            for (unsigned k = n - 1; k-- > 0; ) reg->addTest(shells[k]);
            g_script = &batch[n - 1];
            g_batch_active = true;
            fixture.flushOutputAndResetResult();
            if (cli) {
                char rarg[16]; snprintf(rarg, sizeof rarg, "-r%u", reps);
                const char* av[3] = { "h_c17", "-e", rarg };
                try { QuietRunner runner(3, av, reg); runner.runAllTestsMain(); } catch (...) { vh::emit("exception-escaped-the-runner"); }
            }
            else {
                try { fixture.runAllTests(); } catch (...) { vh::emit("exception-escaped-the-runner"); }
            }
            g_batch_active = false;
            for (unsigned k = 0; k + 1 < n; k++) reg->unDoLastAddTest();
            for (unsigned k = 0; k < n; k++) {
                std::string pre = "pre", post = "post"; bool anypre = false, anypost = false;
                for (unsigned e = 0; e < g_nblog; e++) if (g_blog[e].test == k) {
                    if (g_blog[e].post) { post += " "; post += g_blog[e].name; anypost = true; }
                    else { pre += " "; pre += g_blog[e].name; anypre = true; }
                }
                vh::emit("t%u %s%s", k, pre.c_str(), anypre ? "" : " -");
                vh::emit("t%u %s%s", k, post.c_str(), anypost ? "" : " -");
                vh::emit("t%u done %u", k, g_bdone[k]);
            }
            if (!cli && fixture.getRunCount() != n) vh::emit("ran %lu", (unsigned long) fixture.getRunCount());
            Local::emit_chain(reg);
            std::string m = "mem";
            for (unsigned k = 0; k < NPTR; k++) { m += " "; m += val_token(k); }
            vh::emit("%s", m.c_str());
            for (size_t k = 0; k < shells.size(); k++) { delete shells[k]; delete fns[k]; }
            g_bn = 0; batch.clear();
        }
        else vh::emit("> skip");
    }
    // end of case: leave the process-wide table clean, detach the plugins before they go out of scope
    reg->resetPlugins();
    munmap(g_sh, sizeof(Shared));
}

} // namespace

int main() { return vh::run_all(run_case); }
