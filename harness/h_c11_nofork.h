// Force-included (-include) when the C11 check builds its second harness variant: the build of
// src/Platforms/Gcc/UtestPlatform.cpp WITHOUT fork/waitpid/kill.  It pre-empts the generated
// configuration header (same include guard) and repeats its settings except the three macros.
#ifndef CONFIG_H_
#define CONFIG_H_
#define CPPUTEST_USE_LONG_LONG 1
#define CPPUTEST_HAVE_STRDUP
#define CPPUTEST_HAVE_PTHREAD_MUTEX_LOCK
#define CPPUTEST_HAVE_GETTIMEOFDAY
#endif
